SPECIFICATION Spec
CONSTANTS Ids = {1, 2, 3}
 Keys = {1, 2}
 AbortPossible = TRUE
 ClearBeforeSwitchPass = TRUE
INVARIANT CacheTransparent
INVARIANT IndInv
CHECK_DEADLOCK FALSE
