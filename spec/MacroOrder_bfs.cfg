SPECIFICATION Spec
CONSTANTS N = 3
 Deviations = {"BfsOrder"}
 UseCases = FALSE
INVARIANT DesignTopological
CHECK_DEADLOCK FALSE
