SPECIFICATION Spec
CONSTANTS Mode = "trace"
 Ids = {1}
 Keys = {"k"}
 MaxCalls = 0
 MaxSteps = 0
 AbortPossible = FALSE
 Deviations = {}
INVARIANT Report
INVARIANT TraceOk
CHECK_DEADLOCK FALSE
