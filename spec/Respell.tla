------------------------------- MODULE Respell -------------------------------
(***************************************************************************)
(* C16  Layout, comments and alternative spellings do not change the       *)
(* compiled ops.                                                           *)
(*                                                                         *)
(* A source is a sequence of tokens (kind + facts about its context)       *)
(* with a separator between neighbours.  The actions below are exactly the *)
(* re-spellings the property lists; every behaviour is a chain of          *)
(* spellings of one token sequence.  A recorded chain (made by the harness *)
(* applying random re-spellings to a real program and compiling every      *)
(* intermediate text with the real compiler) is validated step by step:    *)
(* each step must be an enabled action here (so the harness cannot claim   *)
(* an illegal re-spelling, e.g. gluing two identifiers together), and the  *)
(* digest of the compiled ops / routine table / position-mark values after *)
(* every step must be the digest of the original.                          *)
(***************************************************************************)
EXTENDS Naturals, Sequences, FiniteSets, TLC, Json, IOUtils
Cases == JsonDeserialize(IOEnv.CASES_FILE)
VARIABLES cid, l, st
vars == <<cid, l, st>>

Seps == {"space", "tab", "newline", "crlf", "two-spaces", "backslash-newline", "block-comment", "block-comment-stars", "line-comment", "comment-and-newline", "empty",
         "attribute-like-comment", "attribute-like-block-comment"}   \* `//?: key: value` is a file attribute only at the top of the file
\* tokens that can never merge with a neighbour when written without a separator
Punct == {"OPEN_PAREN", "CLOSE_PAREN", "OPEN_BRACE", "CLOSE_BRACE", "COMMA", "COLON", "SEMI", "OPEN_BRACKET", "CLOSE_BRACKET"}
\* conservative: an empty separator only next to such a token, and never where the pair could start a comment or a longer operator
CanAbut(a, b) == (a \in Punct \/ b \in Punct) /\ ~(a = "STRING_LITERAL" /\ b = "STRING_LITERAL")

Toks(c) == Cases[c].toks
Has(t, fact) == \E i \in 1..Len(t.f) : t.f[i] = fact
N(c) == Len(Toks(c))

Enabled(c, s) ==
  LET i == s.i IN
  CASE s.a = "SetSeparator" -> i \in 1..(N(c) - 1) /\ s.w \in Seps /\ (s.w = "empty" => CanAbut(Toks(c)[i].k, Toks(c)[i + 1].k))
    [] s.a = "SwapLabelSigil" -> i \in 1..N(c) /\ Toks(c)[i].k \in {"AT", "PARAGRAPH"} /\ Has(Toks(c)[i], "label-definition")
    [] s.a = "LegacyTarget" -> i \in 1..N(c) /\ Toks(c)[i].k \in {"FOR", "FOR_TARGET"} /\ Has(Toks(c)[i], "routine-target")
    [] s.a = "TrailingComma" -> i \in 1..N(c) /\ Toks(c)[i].k = "CLOSE_PAREN" /\ Has(Toks(c)[i], "closes-nonempty-arglist")
    [] s.a = "IntBase" -> i \in 1..N(c) /\ Toks(c)[i].k = "INTEGER" /\ s.w \in {"dec", "hex", "HEX", "oct", "bin"}
    [] s.a = "DecimalLeadingZeros" -> i \in 1..N(c) /\ Toks(c)[i].k = "DECIMAL" /\ s.w \in {"0", "1", "2"}
    [] s.a = "QuoteStyle" -> /\ i \in 1..N(c) /\ Toks(c)[i].k \in {"STRING_LITERAL", "MULTILINE_STRING_LITERAL"}
                             /\ s.w \in {"single", "double", "triple-single", "triple-double"}
                             \* plain content (no quote, backslash or line break) may be written in any style; content whose only
                             \* special characters are quotes (written escaped where they equal the delimiter) in both single-line styles
                             /\ \/ Has(Toks(c)[i], "plain-content")
                                \/ Has(Toks(c)[i], "quotes-only-content") /\ s.w \in {"single", "double"}
                             /\ (s.w \in {"triple-single", "triple-double"} => Has(Toks(c)[i], "string-value-context"))
    \* the whole file saved with CRLF line endings (also inside multi-line string literals: the file is the same program)
    [] s.a = "FileLineEndings" -> s.w = "crlf"
    \* blanks on an attribute line `//?: key: value` (after the value, after the colons) and CRLF at its end; only for sources that have one
    [] s.a = "AttributeSpacing" -> Cases[c].hasAttribute /\ s.w \in {"trailing-spaces", "trailing-tab", "spaces-after-colon", "crlf-line", "blank-line-after"}
    [] OTHER -> FALSE

Init == cid \in 1..Len(Cases) /\ l = 0 /\ st = IF Cases[cid].baseStatus = "ok" THEN "ok" ELSE "seed-rejected"
Step == /\ st = "ok" /\ l < Len(Cases[cid].steps)
        /\ LET s == Cases[cid].steps[l + 1] IN
           /\ l' = l + 1
           /\ st' = IF ~Enabled(cid, s) THEN "illegal-respelling"          \* harness error, not a verdict
                    ELSE IF s.status # "ok" THEN "respelling-rejected"
                    ELSE IF s.digest # Cases[cid].baseDigest THEN "compiled-result-changed"
                    ELSE "ok"
        /\ UNCHANGED cid
Next == Step
Spec == Init /\ [][Next]_vars
SameMeaning == st \in {"ok", "seed-rejected"}
Report == st \notin {"ok", "seed-rejected"} => PrintT(<<"VIOL", cid, st, l>>)
=============================================================================
