----------------------------- MODULE CacheThreads -----------------------------
(***************************************************************************)
(* C12  Concurrent decompilation: threads x process-wide cache x lock x    *)
(* id allocator.                                                           *)
(*                                                                         *)
(* Every thread runs convert() calls; a call allocates a graph (an id that *)
(* is unique among LIVE graphs, lowest free first), then performs cache    *)
(* steps exactly as the code takes them: Lookup under the lock (creates    *)
(* the bucket, hit or miss), Compute outside the lock, Store under the     *)
(* lock, Clear under the lock; then frees the graph - or aborts at any     *)
(* point (exception -> fallback), leaving its bucket as it is.  Passes     *)
(* clear the bucket before their first lookup (the repaired code; the      *)
(* named deviation "NoClearBeforeSwitchPass" lets a pass start with a      *)
(* lookup).  All interleavings of the lock-protected steps are explored.   *)
(*   ResultSequential : a lookup never returns an entry that was stored    *)
(*                      for another graph (another thread's, or an earlier *)
(*                      incarnation of the id)                             *)
(*   NoMissingBucket  : a store always finds its bucket                    *)
(***************************************************************************)
EXTENDS Naturals, FiniteSets, Sequences, TLC
CONSTANTS Threads, Ids, Keys, MaxCalls, Deviations
VARIABLES cache,     \* [Ids -> [Keys -> 0 (absent) | graph serial that stored it]]
          bucket,    \* [Ids -> BOOLEAN] bucket exists
          holder,    \* [Ids -> 0 | graph serial currently alive with that id]
          serial,    \* next graph serial
          pc,        \* [Threads -> "idle" | "pass" | "looked" | "computed"]
          gid,       \* [Threads -> id of the thread's current graph]
          gser,      \* [Threads -> serial of the thread's current graph]
          key,       \* [Threads -> key being looked up]
          cleared,   \* [Threads -> BOOLEAN] the current pass has cleared the bucket
          calls,     \* [Threads -> Nat]
          bad, missing
vars == <<cache, bucket, holder, serial, pc, gid, gser, key, cleared, calls, bad, missing>>

Init == /\ cache = [i \in Ids |-> [k \in Keys |-> 0]] /\ bucket = [i \in Ids |-> FALSE] /\ holder = [i \in Ids |-> 0]
        /\ serial = 1 /\ pc = [t \in Threads |-> "idle"] /\ gid = [t \in Threads |-> 0] /\ gser = [t \in Threads |-> 0]
        /\ key = [t \in Threads |-> CHOOSE k \in Keys : TRUE] /\ cleared = [t \in Threads |-> FALSE]
        /\ calls = [t \in Threads |-> 0] /\ bad = FALSE /\ missing = FALSE

Alloc(t) == /\ pc[t] = "idle" /\ calls[t] < MaxCalls
            /\ \E i \in Ids : /\ holder[i] = 0 /\ \A j \in Ids : holder[j] = 0 => i <= j
                              /\ holder' = [holder EXCEPT ![i] = serial] /\ gid' = [gid EXCEPT ![t] = i]
            /\ gser' = [gser EXCEPT ![t] = serial] /\ serial' = serial + 1
            /\ pc' = [pc EXCEPT ![t] = "pass"] /\ cleared' = [cleared EXCEPT ![t] = FALSE]
            /\ calls' = [calls EXCEPT ![t] = @ + 1]
            /\ UNCHANGED <<cache, bucket, key, bad, missing>>
Clear(t) == /\ pc[t] = "pass"
            /\ cache' = [cache EXCEPT ![gid[t]] = [k \in Keys |-> 0]] /\ bucket' = [bucket EXCEPT ![gid[t]] = TRUE]
            /\ cleared' = [cleared EXCEPT ![t] = TRUE]
            /\ UNCHANGED <<holder, serial, pc, gid, gser, key, calls, bad, missing>>
Lookup(t, k) == /\ pc[t] = "pass" /\ (cleared[t] \/ "NoClearBeforeSwitchPass" \in Deviations)
                /\ bucket' = [bucket EXCEPT ![gid[t]] = TRUE]
                /\ key' = [key EXCEPT ![t] = k]
                /\ IF cache[gid[t]][k] # 0
                   THEN /\ bad' = (bad \/ cache[gid[t]][k] # gser[t])            \* hit: must be this graph's own entry
                        /\ UNCHANGED pc
                   ELSE /\ pc' = [pc EXCEPT ![t] = "looked"] /\ UNCHANGED bad    \* miss: compute outside the lock
                /\ UNCHANGED <<cache, holder, serial, gid, gser, cleared, calls, missing>>
Compute(t) == /\ pc[t] = "looked" /\ pc' = [pc EXCEPT ![t] = "computed"]
              /\ UNCHANGED <<cache, bucket, holder, serial, gid, gser, key, cleared, calls, bad, missing>>
Store(t) == /\ pc[t] = "computed"
            /\ missing' = (missing \/ ~bucket[gid[t]])
            /\ cache' = [cache EXCEPT ![gid[t]][key[t]] = gser[t]]
            /\ pc' = [pc EXCEPT ![t] = "pass"]
            /\ UNCHANGED <<bucket, holder, serial, gid, gser, key, cleared, calls, bad>>
NewPass(t) == /\ pc[t] = "pass" /\ cleared[t] /\ cleared' = [cleared EXCEPT ![t] = FALSE]
              /\ UNCHANGED <<cache, bucket, holder, serial, pc, gid, gser, key, calls, bad, missing>>
\* end of the call (normally after a final Clear, or by an exception at any time): the graph is released
Finish(t) == /\ pc[t] \in {"pass", "looked", "computed"}
             /\ holder' = [holder EXCEPT ![gid[t]] = 0]
             /\ pc' = [pc EXCEPT ![t] = "idle"]
             /\ UNCHANGED <<cache, bucket, serial, gid, gser, key, cleared, calls, bad, missing>>
Next == \E t \in Threads : Alloc(t) \/ Clear(t) \/ (\E k \in Keys : Lookup(t, k)) \/ Compute(t) \/ Store(t) \/ NewPass(t) \/ Finish(t)
Spec == Init /\ [][Next]_vars
ResultSequential == ~bad
NoMissingBucket == ~missing
UniqueLiveIds == \A a, b \in Threads : (a # b /\ pc[a] # "idle" /\ pc[b] # "idle") => gid[a] # gid[b]
=============================================================================
