--------------------------- MODULE CompilerPipeline ---------------------------
(***************************************************************************)
(* The back half of ExplorerScriptSsbCompiler.compile(): what happens to   *)
(* the labelled-op program between the compile handlers and routine_ops.   *)
(*                                                                         *)
(*   S[1] handlers' output      (ops, ES_LABEL<id>, label jumps)           *)
(*   S[2] after strip_last_label                                           *)
(*   S[3] after LabelFinalizer  (+ its table label id -> offset)           *)
(*   S[4] after OpsLabelJumpToRemover = routine_ops                        *)
(*                                                                         *)
(* Each stage is recorded from the real code (vf/pipeline.py).  One pass   *)
(* is one step of the pipeline; it must be a REFINEMENT: the program after *)
(* the pass performs, for every outcome of every test, the operations of   *)
(* the program before it.  That is decided by a lock-step product of the   *)
(* two stages on the labelled machine below: a label is a silent step, an  *)
(* unconditional (label) jump is a silent step, running off the end of a   *)
(* routine is the dummy end operation (Return), an op right after a        *)
(* context op (lives/object/performer) never ends the routine.             *)
(*                                                                         *)
(* pr = <<i, j>> is the pair of stages compared: the three passes and the  *)
(* composition <<1, 4>>.  The verdict about property C01 is taken by       *)
(* CompileEquiv (source x S[4]); this module says WHICH pass is to blame,  *)
(* and checks the hand-over contracts of the passes (Static).              *)
(***************************************************************************)
EXTENDS Ssb, TLC, Json, IOUtils
\* Mode = "compiler": the four stages above.  Mode = "resolver": the FIRST step of the ExplorerScript decompiler, run the other way
\* round - OpsLabelJumpToResolver turns the offsets of a binary's jumps into labels (D0 = its input, D1 = its output); the
\* same machine, the same refinement, one pair.
CONSTANT Mode
Cases == JsonDeserialize(IOEnv.CASES_FILE)
VARIABLES cid, pr, rt, a, b, ta, tb, cx, st
vars == <<cid, pr, rt, a, b, ta, tb, cx, st>>

Stage(c, i) == IF Mode = "resolver" THEN (IF i = 1 THEN Cases[c].D0 ELSE Cases[c].D1)
               ELSE CASE i = 1 -> Cases[c].S0 [] i = 2 -> Cases[c].S1 [] i = 3 -> Cases[c].S2 [] OTHER -> Cases[c].S3
A == Stage(cid, pr[1])
B == Stage(cid, pr[2])
Pairs == IF Mode = "resolver" THEN {<<1, 2>>} ELSE {<<1, 2>>, <<2, 3>>, <<3, 4>>, <<1, 4>>}

AtEnd(R, p) == p[2] > Len(R[p[1]])
El(R, p) == R[p[1]][p[2]]
IsLabel(R, p) == ~AtEnd(R, p) /\ El(R, p).k = "label"
IsJump(R, p)  == ~AtEnd(R, p) /\ El(R, p).k # "label" /\ El(R, p).op = "Jump"
IsTau(R, p)   == IsLabel(R, p) \/ IsJump(R, p)

\* where a jump-carrying element of R leads: the label with its id, or (plain ops of the last stage) the op at its offset
LabelPos(R, id) == {p \in AllPos(R) : R[p[1]][p[2]].k = "label" /\ R[p[1]][p[2]].lbl = id}
OpPos(R, off)   == {p \in AllPos(R) : R[p[1]][p[2]].k # "label" /\ R[p[1]][p[2]].off = off}
Pick(ps) == IF ps = {} THEN <<0, 0>> ELSE CHOOSE q \in ps : TRUE
\* the same look-up as a table, evaluated once per recorded case: TLC caches parameterless constant definitions, and TLCEval
\* forces the (otherwise lazily re-evaluated) function values.  TgtTab[c][i][r][k] = where element k of routine r of stage i leads.
TgtTab == TLCEval([c \in 1..Len(Cases) |-> TLCEval([i \in 1..4 |->
            LET R == Stage(c, i)
                AP == AllPos(R)
                Labels == {p \in AP : R[p[1]][p[2]].k = "label"}
                Ops == AP \ Labels IN
            TLCEval([r \in 1..Len(R) |-> TLCEval([k \in 1..Len(R[r]) |->
               LET e == R[r][k] IN
               IF e.k = "ljump" THEN Pick({p \in Labels : R[p[1]][p[2]].lbl = e.lbl})
               ELSE IF e.k = "op" /\ e.tgt # -1 THEN Pick({p \in Ops : R[p[1]][p[2]].off = e.tgt})
               ELSE <<0, 0>>])])])])
SizeTab == TLCEval([c \in 1..Len(Cases) |-> TLCEval([i \in 1..4 |-> NumOps(Stage(c, i))])])
TargetIn(c, i, p) == TgtTab[c][i][p[1]][p[2]]

\* the observable step at p: its kind and what the machine would see
ObsKind(R, p) == IF AtEnd(R, p) THEN "stop"
                 ELSE LET kd == Kind(El(R, p).op) IN
                      IF kd \in {"ctx", "plain"} THEN kd ELSE IF kd = "stop" /\ cx THEN "plain" ELSE kd
ObsLbl(R, p) == IF AtEnd(R, p) THEN [op |-> "Return", ps |-> <<>>] ELSE [op |-> El(R, p).op, ps |-> El(R, p).ps]

\* ---- hand-over contracts of the passes
NoTrailingLabel(R) == \A r \in 1..Len(R) : Len(R[r]) > 0 => R[r][Len(R[r])].k # "label"
NoPseudo(R) == \A p \in AllPos(R) : El(R, p).k = "op"
TargetsExistIn(c, i) == \A p \in AllPos(Stage(c, i)) : El(Stage(c, i), p).op \in JumpCarrying => TargetIn(c, i, p) # <<0, 0>>
RECURSIVE NextOpOff(_, _)
NextOpOff(R, p) ==   \* offset of the first real element at or after p in its routine, -1 = none
  IF AtEnd(R, p) THEN -1 ELSE IF El(R, p).k # "label" THEN El(R, p).off ELSE NextOpOff(R, <<p[1], p[2] + 1>>)
TableOf(c) == Cases[c].label_offsets
Lookup(c, id) == LET hit == {i \in 1..Len(TableOf(c)) : TableOf(c)[i][1] = id} IN
                 IF hit = {} THEN -1 ELSE TableOf(c)[CHOOSE i \in hit : TRUE][2]
TableRight(c) == \A p \in AllPos(Stage(c, 3)) :
                   Stage(c, 3)[p[1]][p[2]].k = "label" => Lookup(c, Stage(c, 3)[p[1]][p[2]].lbl) = NextOpOff(Stage(c, 3), p)
\* resolver: every label stands directly in front of the op it was made for, and nothing but labels was added
IsNoLabel(e) == e.k # "label"
Strip(r) == SelectSeq(r, IsNoLabel)     \* (not recursive: Init is evaluated on TLC's main thread, whose stack is small)
ResolverStatic(c) ==
  LET D0 == Cases[c].D0  D1 == Cases[c].D1 IN
  IF Len(D0) # Len(D1) THEN "tables"
  ELSE IF \E r \in 1..Len(D0) : Len(Strip(D1[r])) # Len(D0[r]) THEN "ops-added-or-lost"
  ELSE IF \E r \in 1..Len(D0) : \E k \in 1..Len(D0[r]) :
            LET x == D0[r][k]  y == Strip(D1[r])[k] IN x.off # y.off \/ x.op # y.op \/ x.ps # y.ps THEN "op-changed"
  ELSE IF ~NoTrailingLabel(D1) THEN "trailing-label-after-strip"
  ELSE "ok"
Static(c) ==
  IF Mode = "resolver" THEN ResolverStatic(c) ELSE
  IF Cases[c].S1in # Cases[c].S1 \/ Cases[c].S2in # Cases[c].S2 \/ Cases[c].final # Cases[c].S3 THEN "handover"
  ELSE IF ~NoTrailingLabel(Stage(c, 2)) THEN "trailing-label-after-strip"
  ELSE IF ~TableRight(c) THEN "label-table"
  ELSE IF ~NoPseudo(Stage(c, 4)) THEN "pseudo-op-in-result"
  ELSE IF ~TargetsExistIn(c, 4) THEN "dangling-target-in-result"
  ELSE "ok"

Init ==
  /\ cid \in 1..Len(Cases)
  /\ \/ /\ pr = <<0, 0>> /\ rt = 0 /\ a = <<0, 0>> /\ b = <<0, 0>> /\ ta = 0 /\ tb = 0 /\ cx = FALSE
        /\ st = Static(cid)
     \/ /\ pr \in Pairs
        /\ rt \in 1..Len(Stage(cid, 1))
        /\ a = <<rt, 1>> /\ b = <<rt, 1>> /\ ta = 0 /\ tb = 0 /\ cx = FALSE
        /\ st = IF Len(Stage(cid, pr[1])) # Len(Stage(cid, pr[2])) THEN "tables" ELSE "run"

SizeA == SizeTab[cid][pr[1]]
SizeB == SizeTab[cid][pr[2]]
TauNextA == IF IsLabel(A, a) THEN <<a[1], a[2] + 1>> ELSE TargetIn(cid, pr[1], a)
TauNextB == IF IsLabel(B, b) THEN <<b[1], b[2] + 1>> ELSE TargetIn(cid, pr[2], b)
SpinA == IsTau(A, a) /\ ta > SizeA
SpinB == IsTau(B, b) /\ tb > SizeB
\* silent steps: the earlier stage first (a fixed order - the interleaving of the two sides' silent steps is irrelevant)
TauA == /\ st = "run" /\ IsTau(A, a) /\ ta <= SizeA
        /\ LET n == TauNextA IN
           IF n = <<0, 0>> THEN st' = "dangling-before" /\ UNCHANGED <<a, ta>>
           ELSE a' = n /\ ta' = ta + 1 /\ st' = st
        /\ UNCHANGED <<cid, pr, rt, b, tb, cx>>
TauB == /\ st = "run" /\ (~IsTau(A, a) \/ SpinA) /\ IsTau(B, b) /\ tb <= SizeB
        /\ LET n == TauNextB IN
           IF n = <<0, 0>> THEN st' = "crash" /\ UNCHANGED <<b, tb>>
           ELSE b' = n /\ tb' = tb + 1 /\ st' = st
        /\ UNCHANGED <<cid, pr, rt, a, ta, cx>>
Spin == /\ st = "run" /\ (SpinA \/ SpinB) /\ (SpinA \/ ~IsTau(A, a)) /\ (SpinB \/ ~IsTau(B, b))
        /\ st' = IF SpinA /\ SpinB THEN "done" ELSE "diverge"      \* a silent cycle is matched only by a silent cycle
        /\ UNCHANGED <<cid, pr, rt, a, b, ta, tb, cx>>
Sync == /\ st = "run" /\ ~IsTau(A, a) /\ ~IsTau(B, b)
        /\ LET ka == ObsKind(A, a)  kb == ObsKind(B, b) IN
           IF ka # kb \/ ObsLbl(A, a) # ObsLbl(B, b) THEN st' = "mismatch" /\ UNCHANGED <<a, b, ta, tb, cx>>
           ELSE IF ka = "stop" THEN st' = "done" /\ UNCHANGED <<a, b, ta, tb, cx>>
           ELSE \E taken \in BOOLEAN :
                  /\ (ka # "test" => taken = FALSE)
                  /\ LET na == IF taken THEN TargetIn(cid, pr[1], a) ELSE <<a[1], a[2] + 1>>
                         nb == IF taken THEN TargetIn(cid, pr[2], b) ELSE <<b[1], b[2] + 1>> IN
                     IF na = <<0, 0>> THEN st' = "dangling-before" /\ UNCHANGED <<a, b>>
                     ELSE IF nb = <<0, 0>> THEN st' = "crash" /\ UNCHANGED <<a, b>>
                     ELSE a' = na /\ b' = nb /\ st' = st
                  /\ ta' = 0 /\ tb' = 0 /\ cx' = (ka = "ctx")
        /\ UNCHANGED <<cid, pr, rt>>

Next == TauA \/ TauB \/ Spin \/ Sync
Spec == Init /\ [][Next]_vars

Bad == {"mismatch", "crash", "diverge", "tables", "dangling-before", "ops-added-or-lost", "op-changed",
        "handover", "trailing-label-after-strip", "label-table", "pseudo-op-in-result", "dangling-target-in-result"}
Refines == st \notin Bad
SafeOp(R, p) == IF p[1] \in 1..Len(R) /\ p[2] \in 1..Len(R[p[1]]) THEN El(R, p).op ELSE "-"
\* (one short line per verdict: TLC wraps tuples wider than 80 columns)
Report == st \in Bad => PrintT(<<"VIOL", cid, st, pr[1], pr[2], rt, a[2], b[2]>>)
=============================================================================
