SPECIFICATION Spec
INVARIANT Report
INVARIANT ResolvesAsSpecified
CHECK_DEADLOCK FALSE
