SPECIFICATION Spec
CONSTANTS Threads = {1, 2, 3}
 Ids = {1, 2, 3}
 Keys = {"k1", "k2"}
 MaxCalls = 2
 Deviations = {}
INVARIANT ResultSequential
INVARIANT NoMissingBucket
INVARIANT UniqueLiveIds
CHECK_DEADLOCK FALSE
