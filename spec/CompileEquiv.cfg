SPECIFICATION Spec
INVARIANT Report
INVARIANT Agree
INVARIANT NoCrash
INVARIANT RoutineTable
CHECK_DEADLOCK FALSE
