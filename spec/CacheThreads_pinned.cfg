SPECIFICATION Spec
CONSTANTS Threads = {1, 2}
 Ids = {1, 2}
 Keys = {"k1", "k2"}
 MaxCalls = 2
 Deviations = {"NoClearBeforeSwitchPass"}
INVARIANT ResultSequential
INVARIANT NoMissingBucket
INVARIANT UniqueLiveIds
CHECK_DEADLOCK FALSE
