SPECIFICATION Spec
INVARIANT Report
INVARIANT DocumentedOutcome
INVARIANT RejectsMeaningless
CHECK_DEADLOCK FALSE
