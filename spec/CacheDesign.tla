---------------------------- MODULE CacheDesign ----------------------------
(***************************************************************************)
(* The design part of ProcessState.tla WITHOUT bounds: any number of       *)
(* convert() calls, any number of lookups per pass, any sets of graph ids  *)
(* and keys.  ProcessState's design mode is this module with counters      *)
(* (MaxCalls, MaxSteps) and the lowest-free id rule; here any free id may  *)
(* be handed out.                                                          *)
(*                                                                         *)
(* Checked three ways:                                                     *)
(*  - TLC, exhaustively for 3 ids x 2 keys (CacheDesign.cfg; the state     *)
(*    space is finite because nothing counts);                             *)
(*  - Apalache: IndInv is inductive for 3 ids x 3 keys (MC_CacheDesign),   *)
(*    and with ClearBeforeSwitchPass = FALSE (the pinned tree) a violation *)
(*    of CacheTransparent is reached in 7 steps (MC_CacheDesignPinned);    *)
(*  - TLAPS: proofs/CacheDesignProof.tla proves Spec => []CacheTransparent *)
(*    for ARBITRARY Ids and Keys (37 obligations); with the deviation      *)
(*    exactly the NextPhase obligation fails.                              *)
(* The binding to the code is the trace validation of ProcessState.tla.    *)
(***************************************************************************)
EXTENDS Integers, FiniteSets
CONSTANTS
  \* @type: Set(Int);
  Ids,
  \* @type: Set(Int);
  Keys,
  \* @type: Bool;
  AbortPossible,
  \* @type: Bool;
  ClearBeforeSwitchPass
VARIABLES
  \* @type: Int -> (Int -> Str);
  cache,
  \* @type: Int -> Bool;
  held,
  \* @type: Int -> Str;
  truth,
  \* @type: Int;
  cur,
  \* @type: Str;
  phase,
  \* @type: Str;
  due,
  \* @type: Bool;
  bad
vars == <<cache, held, truth, cur, phase, due, bad>>
Vals == {"None", "Edges"}
Absent == "absent"
EmptyBucket == [k \in Keys |-> Absent]
Init == /\ cache = [i \in Ids |-> EmptyBucket] /\ held = [i \in Ids |-> FALSE]
        /\ truth = [k \in Keys |-> "None"] /\ cur = 0 /\ phase = "idle" /\ due = "done" /\ bad = FALSE
Pinned(i) == \E k \in Keys : cache[i][k] = "Edges"
Alloc == /\ phase = "idle"
         /\ \E i \in Ids : /\ ~held[i]
                           /\ cur' = i /\ held' = [held EXCEPT ![i] = TRUE]
         /\ truth' \in [Keys -> Vals]
         /\ phase' = "P1" /\ due' = "clear" /\ UNCHANGED <<cache, bad>>
Clear == /\ phase # "idle" /\ due = "clear"
         /\ cache' = [cache EXCEPT ![cur] = EmptyBucket]
         /\ due' = (IF phase = "P3" THEN "finds" ELSE IF phase = "P4" THEN "done" ELSE "find")
         /\ UNCHANGED <<held, truth, cur, phase, bad>>
Find(k) == /\ phase \in {"P1", "P2", "P3"} /\ due \in {"find", "finds"}
           /\ IF cache[cur][k] # Absent
              THEN bad' = (bad \/ cache[cur][k] # truth[k]) /\ UNCHANGED cache
              ELSE cache' = [cache EXCEPT ![cur][k] = truth[k]] /\ UNCHANGED bad
           /\ due' = (IF phase = "P3" THEN "finds" ELSE "clear")
           /\ UNCHANGED <<held, truth, cur, phase>>
NextPhase == /\ \/ phase = "P1" /\ due = "clear" /\ phase' = "P2"
                   /\ due' = IF ClearBeforeSwitchPass THEN "clear" ELSE "find"
                \/ phase = "P2" /\ due \in {"find", "clear"} /\ phase' = "P3" /\ due' = "clear"
                \/ phase = "P3" /\ due = "finds" /\ phase' = "P4" /\ due' = "clear"
             /\ UNCHANGED <<cache, held, truth, cur, bad>>
Release == held' = [held EXCEPT ![cur] = Pinned(cur)]
Finish == /\ phase = "P4" /\ due = "done" /\ Release
          /\ cur' = 0 /\ phase' = "idle" /\ UNCHANGED <<cache, truth, due, bad>>
Abort  == /\ AbortPossible /\ phase \in {"P1", "P2", "P3"} /\ Release
          /\ cur' = 0 /\ phase' = "idle" /\ due' = "done" /\ UNCHANGED <<cache, truth, bad>>
Next == Alloc \/ Clear \/ (\E k \in Keys : Find(k)) \/ NextPhase \/ Finish \/ Abort
Spec == Init /\ [][Next]_vars
CacheTransparent == ~bad

TypeOK == /\ cache \in [Ids -> [Keys -> Vals \cup {Absent}]] /\ held \in [Ids -> BOOLEAN] /\ truth \in [Keys -> Vals]
          /\ cur \in Ids \cup {0} /\ phase \in {"idle", "P1", "P2", "P3", "P4"} /\ due \in {"done", "clear", "find", "finds"}
          /\ bad \in BOOLEAN
IndInv == /\ TypeOK
          /\ ~bad
          /\ (phase = "idle") = (cur = 0)
          /\ phase # "idle" => held[cur]
          /\ (phase = "idle") => due = "done"
          /\ (phase = "P4") => due \in {"clear", "done"}
          /\ (phase \in {"P1", "P2"}) => due \in {"clear", "find"}
          /\ (phase = "P3") => due \in {"clear", "finds"}
          \* whenever a lookup is due, the bucket of the current graph holds only answers about the current graph
          /\ (phase # "idle" /\ due \in {"find", "finds"}) => \A k \in Keys : cache[cur][k] \in {Absent, truth[k]}
=============================================================================
