SPECIFICATION Spec
CONSTANTS Mode = "design"
 Ids = {1, 2}
 Keys = {"k1", "k2"}
 MaxCalls = 3
 MaxSteps = 5
 AbortPossible = TRUE
 Deviations = {}
INVARIANT CacheTransparent
CHECK_DEADLOCK FALSE
