SPECIFICATION Spec
CONSTANTS Mode = "design"
 MaxLen = 3
INVARIANT TotalAndLossless
CHECK_DEADLOCK FALSE
