SPECIFICATION Spec
CONSTANTS Ids = {1, 2}
 Keys = {1, 2}
 AbortPossible = TRUE
 ClearBeforeSwitchPass = FALSE
INVARIANT CacheTransparent
CHECK_DEADLOCK FALSE
