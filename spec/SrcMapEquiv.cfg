SPECIFICATION Spec
INVARIANT Report
INVARIANT MapAgrees
CHECK_DEADLOCK FALSE
