---------------------------- MODULE ProcessState ----------------------------
(***************************************************************************)
(* C11  Results depend only on the input, not on what was processed before *)
(* (and the cache part of C12).                                            *)
(*                                                                         *)
(* The process-wide memo table of graph_utils as convert() drives it:      *)
(*    cache : graph id -> key -> "None" | "Edges"                          *)
(* keyed by id(graph).  CPython may hand the id of a freed graph to the    *)
(* next graph (in practice: immediately), and a cached non-None result     *)
(* holds igraph Edge objects that keep their graph alive ("pinned").       *)
(* Pass structure of one convert(), from graph_minimizer.py:               *)
(*   P1 build_branches               (Clear Find)*                         *)
(*   P2 build_and_group_switch_cases Clear (Find Clear)*   [Clear first    *)
(*      since the repair; the named deviation "NoClearBeforeSwitchPass"    *)
(*      is the pinned tree: (Find Clear)* ]                                *)
(*   P3 build_loops                  Clear Find*                           *)
(*   P4 remove_label_markers         Clear                                 *)
(* Abort = an exception anywhere in P1..P3 (-> SsbScript fallback).        *)
(*                                                                         *)
(* Mode "design": TLC explores every history of MaxCalls calls with        *)
(* MaxSteps cache steps each over the given ids and keys; invariant        *)
(* CacheTransparent: every Find returns what a fresh computation on the    *)
(* current graph returns.                                                  *)
(* Mode "trace": the cache events recorded from the REAL code through the  *)
(* guarded hooks (with a deterministic, adversarial but legal id           *)
(* allocator installed by the harness) are consumed one by one; a hit on   *)
(* an entry that was stored for another incarnation of the graph id        *)
(* (StaleHit) or by a different thread's graph is not an action, nor is a  *)
(* store into a missing bucket.                                            *)
(***************************************************************************)
EXTENDS Naturals, Sequences, FiniteSets, TLC, Json, IOUtils
CONSTANTS Mode, Ids, Keys, MaxCalls, MaxSteps, AbortPossible, Deviations
Traces == IF Mode = "trace" THEN JsonDeserialize(IOEnv.CASES_FILE) ELSE <<>>
Vals == {"None", "Edges"}
Absent == "absent"

VARIABLES cache, owner, truth, cur, phase, due, calls, steps, bad,      \* design mode
          tid, l, tcache, inc, tst                                       \* trace mode
dvars == <<cache, owner, truth, cur, phase, due, calls, steps, bad>>
tvars == <<tid, l, tcache, inc, tst>>
vars == <<dvars, tvars>>

EmptyBucket == [k \in Keys |-> Absent]
\* ------------------------------------------------------------------ design mode
DInit == /\ cache = [i \in Ids |-> EmptyBucket] /\ owner = [i \in Ids |-> 0]
         /\ truth = [k \in Keys |-> "None"] /\ cur = 0 /\ phase = "idle" /\ due = "done"
         /\ calls = 0 /\ steps = 0 /\ bad = FALSE
Pinned(i) == \E k \in Keys : cache[i][k] = "Edges"
Alloc == /\ phase = "idle" /\ calls < MaxCalls
         /\ \E i \in Ids : /\ owner[i] = 0 /\ \A j \in Ids : (owner[j] = 0 => i <= j)   \* lowest free id: legal, and what CPython does
                           /\ cur' = i /\ owner' = [owner EXCEPT ![i] = calls + 1]
         /\ truth' \in [Keys -> Vals]
         /\ calls' = calls + 1 /\ phase' = "P1" /\ due' = "clear" /\ steps' = 0 /\ UNCHANGED <<cache, bad>>
Clear == /\ phase # "idle" /\ due = "clear" /\ steps < MaxSteps
         /\ cache' = [cache EXCEPT ![cur] = EmptyBucket]
         /\ due' = (CASE phase = "P1" -> "find" [] phase = "P2" -> "find" [] phase = "P3" -> "finds" [] phase = "P4" -> "done")
         /\ steps' = steps + 1 /\ UNCHANGED <<owner, truth, cur, phase, calls, bad>>
Find(k) == /\ phase \in {"P1", "P2", "P3"} /\ due \in {"find", "finds"} /\ steps < MaxSteps
           /\ IF cache[cur][k] # Absent
              THEN bad' = (bad \/ cache[cur][k] # truth[k]) /\ UNCHANGED cache
              ELSE cache' = [cache EXCEPT ![cur][k] = truth[k]] /\ UNCHANGED bad
           /\ due' = (IF phase = "P3" THEN "finds" ELSE "clear")
           /\ steps' = steps + 1 /\ UNCHANGED <<owner, truth, cur, phase, calls>>
NextPhase == /\ \/ phase = "P1" /\ due = "clear" /\ phase' = "P2"
                   /\ due' = IF "NoClearBeforeSwitchPass" \in Deviations THEN "find" ELSE "clear"
                \/ phase = "P2" /\ due \in {"find", "clear"} /\ phase' = "P3" /\ due' = "clear"
                \/ phase = "P3" /\ due = "finds" /\ phase' = "P4" /\ due' = "clear"
             /\ UNCHANGED <<cache, owner, truth, cur, calls, steps, bad>>
Release == owner' = [owner EXCEPT ![cur] = IF Pinned(cur) THEN owner[cur] ELSE 0]
Finish == /\ phase = "P4" /\ due = "done" /\ Release
          /\ cur' = 0 /\ phase' = "idle" /\ UNCHANGED <<cache, truth, due, calls, steps, bad>>
Abort  == /\ AbortPossible /\ phase \in {"P1", "P2", "P3"} /\ Release
          /\ cur' = 0 /\ phase' = "idle" /\ due' = "done" /\ UNCHANGED <<cache, truth, calls, steps, bad>>
DNext == (Alloc \/ Clear \/ (\E k \in Keys : Find(k)) \/ NextPhase \/ Finish \/ Abort) /\ UNCHANGED tvars

\* ------------------------------------------------------------------ trace mode
\* events: [e |-> "alloc" | "free" | "cache-clear" | "cache-hit" | "cache-miss" | "cache-store", g |-> graph id, k |-> key]
TInit == /\ tid \in 1..Len(Traces) /\ l = 1 /\ tcache = <<>> /\ inc = <<>> /\ tst = "ok"
\* tcache: sequence of [g, k, inc] entries (a set, kept as a sequence of records for JSON-free simplicity)
IncOf(g) == IF \E i \in 1..Len(inc) : inc[i].g = g THEN (CHOOSE i \in 1..Len(inc) : inc[i].g = g) ELSE 0
CurInc(g) == IF IncOf(g) = 0 THEN 0 ELSE inc[IncOf(g)].n
HasBucket(g) == \E i \in 1..Len(tcache) : tcache[i].g = g /\ tcache[i].k = "<bucket>"
Consume ==
  /\ Mode = "trace" /\ tst = "ok" /\ l <= Len(Traces[tid].events)
  /\ LET ev == Traces[tid].events[l] IN
     /\ l' = l + 1
     /\ CASE ev.e = "alloc" ->
               /\ inc' = IF IncOf(ev.g) = 0 THEN Append(inc, [g |-> ev.g, n |-> 1]) ELSE [inc EXCEPT ![IncOf(ev.g)].n = @ + 1]
               /\ UNCHANGED <<tcache, tst>>
          [] ev.e = "cache-clear" ->
               /\ tcache' = Append(SelectSeq(tcache, LAMBDA x : x.g # ev.g), [g |-> ev.g, k |-> "<bucket>", n |-> CurInc(ev.g)])
               /\ UNCHANGED <<inc, tst>>
          [] ev.e = "cache-miss" ->     \* the lookup creates the bucket if it is missing
               /\ tcache' = IF HasBucket(ev.g) THEN tcache ELSE Append(tcache, [g |-> ev.g, k |-> "<bucket>", n |-> CurInc(ev.g)])
               /\ tst' = IF \E i \in 1..Len(tcache) : tcache[i].g = ev.g /\ tcache[i].k = ev.k THEN "miss-on-present-entry" ELSE "ok"
               /\ UNCHANGED inc
          [] ev.e = "cache-store" ->
               /\ tst' = IF ~HasBucket(ev.g) THEN "store-into-missing-bucket" ELSE "ok"
               /\ tcache' = Append(SelectSeq(tcache, LAMBDA x : ~(x.g = ev.g /\ x.k = ev.k)), [g |-> ev.g, k |-> ev.k, n |-> CurInc(ev.g)])
               /\ UNCHANGED inc
          [] ev.e = "cache-hit" ->
               /\ tst' = IF \E i \in 1..Len(tcache) : tcache[i].g = ev.g /\ tcache[i].k = ev.k /\ tcache[i].n = CurInc(ev.g) THEN "ok"
                         ELSE IF \E i \in 1..Len(tcache) : tcache[i].g = ev.g /\ tcache[i].k = ev.k THEN "stale-hit"
                         ELSE "hit-on-absent-entry"
               /\ UNCHANGED <<tcache, inc>>
          [] OTHER -> UNCHANGED <<tcache, inc, tst>>
  /\ UNCHANGED <<tid>>
\* after the last event: the observable result of the call under observation is the one a fresh process gives, and
\* decompilation has not altered the routine set it was given
Conclude ==
  /\ Mode = "trace" /\ tst = "ok" /\ l = Len(Traces[tid].events) + 1
  /\ l' = l + 1
  /\ tst' = IF \E i \in 1..Len(Traces[tid].pairs) : Traces[tid].pairs[i].live # Traces[tid].pairs[i].fresh THEN "output-depends-on-history"
            ELSE IF Traces[tid].mutated THEN "argument-altered" ELSE "ok"
  /\ UNCHANGED <<tid, tcache, inc>>
TNext == (Consume \/ Conclude) /\ UNCHANGED dvars

Init == IF Mode = "design"
        THEN DInit /\ tid = 0 /\ l = 0 /\ tcache = <<>> /\ inc = <<>> /\ tst = "ok"
        ELSE TInit /\ cache = <<>> /\ owner = <<>> /\ truth = <<>> /\ cur = 0 /\ phase = "idle" /\ due = "done" /\ calls = 0 /\ steps = 0 /\ bad = FALSE
Next == IF Mode = "design" THEN DNext ELSE TNext
Spec == Init /\ [][Next]_vars
CacheTransparent == ~bad
TraceOk == tst = "ok"
Report == tst # "ok" => PrintT(<<"VIOL", tid, tst, l - 1>>)
=============================================================================
