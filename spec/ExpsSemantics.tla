--------------------------- MODULE ExpsSemantics ---------------------------
(***************************************************************************)
(* Small-step semantics of ExplorerScript routines, as the language        *)
(* specification (docs/language_spec.rst) assigns it.                      *)
(*                                                                         *)
(* The language has no data in its control state (tests are uninterpreted: *)
(* "for every possible outcome of every test"), so a configuration is a    *)
(* program point plus the stack of macro call sites:                       *)
(*     cfg = [pt |-> [t, n, a, j], stk |-> Seq(call-site node)]            *)
(* Points:  At(n)  about to execute node n;  Hdr(n,a,j) about to test      *)
(* header j of arm a of if-node n;  Cs(n,j) about to test case header j of *)
(* switch n;  Tst(n) loop test;  Op2(n) the operation proper of an op with *)
(* an inline context;  Mc(n,j) text case j of a message switch;  Off.      *)
(*                                                                         *)
(* A program `c' is a node table (see vf/parsetree.py):                    *)
(*   c.nodes[n], c.par[n] = [p, role, ai, idx, rk, ri], c.routines[k],     *)
(*   c.macros[m] = [name, params, body].                                   *)
(* Every source step is one of: tau (silent), op(label), test(label, taken)*)
(* or stop(label).  SKind / SLbl / SNext define them.                      *)
(***************************************************************************)
EXTENDS ExpsForms, FiniteSets

StopNames == {"Return", "End", "Hold", "JumpCommon", "Destroy"}

N(c) == c.nodes
Par(c) == c.par

Pt(t, n, a, j) == [t |-> t, n |-> n, a |-> a, j |-> j]
AtP(n) == Pt("At", n, 0, 0)
OffPt == Pt("Off", 0, 0, 0)
Cfg(pt, stk) == [pt |-> pt, stk |-> stk]
OffCfg == Cfg(OffPt, <<>>)

MacroIdx(c, name) == CHOOSE m \in 1..Len(c.macros) : c.macros[m].name = name
MacroDefined(c, name) == \E m \in 1..Len(c.macros) : c.macros[m].name = name

RootBody(c, n) == IF Par(c)[n].rk = "r" THEN c.routines[Par(c)[n].ri].body ELSE c.macros[Par(c)[n].ri].body

BlockOf(c, n) ==
  LET p == Par(c)[n] IN
  IF p.p = 0 THEN RootBody(c, n)
  ELSE LET pn == N(c)[p.p] IN
       CASE p.role = "arm"  -> pn.arms[p.ai].body
         [] p.role = "else" -> pn.els
         [] p.role = "case" -> pn.cases[p.ai].body
         [] p.role = "body" -> pn.body
         [] OTHER -> <<n>>        \* init / incr / inner: single statements

Enter(blk, exit, stk) == IF Len(blk) = 0 THEN exit ELSE Cfg(AtP(blk[1]), stk)

RECURSIVE After(_, _, _)
RECURSIVE BodyFrom(_, _, _, _)
\* first case body at or after case j, in source order (fall-through; default keeps its place)
BodyFrom(c, n, j, stk) ==
  IF j > Len(N(c)[n].cases) THEN After(c, n, stk)
  ELSE IF Len(N(c)[n].cases[j].body) > 0 THEN Cfg(AtP(N(c)[n].cases[j].body[1]), stk)
  ELSE BodyFrom(c, n, j + 1, stk)

\* where control goes when node n completes normally
After(c, n, stk) ==
  LET p == Par(c)[n]  blk == BlockOf(c, n) IN
  IF p.idx < Len(blk) THEN Cfg(AtP(blk[p.idx + 1]), stk)
  ELSE IF p.p = 0
       THEN (IF p.rk = "r" \/ stk = <<>> THEN OffCfg          \* ran off the routine: stops like `return`
             ELSE After(c, Head(stk), Tail(stk)))              \* end of a macro body: back to the call site
  ELSE LET pn == N(c)[p.p] IN
       CASE p.role \in {"arm", "else", "inner"} -> After(c, p.p, stk)
         [] p.role = "case" -> BodyFrom(c, p.p, p.ai + 1, stk)
         [] p.role = "body" -> (CASE pn.k = "forever" -> Enter(pn.body, Cfg(AtP(p.p), stk), stk)
                                  [] pn.k = "while" -> Cfg(Pt("Tst", p.p, 0, 0), stk)
                                  [] pn.k = "for" -> Cfg(AtP(pn.incr), stk))
         [] p.role \in {"init", "incr"} -> Cfg(Pt("Tst", p.p, 0, 0), stk)

RECURSIVE EnclLoop(_, _)
EnclLoop(c, n) == LET p == Par(c)[n] IN
  IF p.p = 0 THEN 0
  ELSE IF N(c)[p.p].k \in {"forever", "while", "for"} /\ p.role = "body" THEN p.p ELSE EnclLoop(c, p.p)
RECURSIVE EnclSwitch(_, _)
EnclSwitch(c, n) == LET p == Par(c)[n] IN
  IF p.p = 0 THEN 0 ELSE IF N(c)[p.p].k = "switch" /\ p.role = "case" THEN p.p ELSE EnclSwitch(c, p.p)

\* labels are file-global among routines and private to a macro body (hence to each expansion)
LabelNodes(c, name, n) ==
  {m \in 1..Len(N(c)) : /\ N(c)[m].k = "label" /\ N(c)[m].name = name
                        /\ Par(c)[m].rk = Par(c)[n].rk
                        /\ (Par(c)[n].rk = "m" => Par(c)[m].ri = Par(c)[n].ri)}
LabelNode(c, name, n) == CHOOSE m \in LabelNodes(c, name, n) : TRUE

NextArm(c, n, a, stk) ==
  IF a < Len(N(c)[n].arms) THEN Cfg(Pt("Hdr", n, a + 1, 1), stk)
  ELSE IF N(c)[n].hasElse THEN Enter(N(c)[n].els, After(c, n, stk), stk) ELSE After(c, n, stk)

DefaultEntry(c, n, stk) ==
  LET ds == {j \in 1..Len(N(c)[n].cases) : N(c)[n].cases[j].isDef} IN
  IF ds = {} THEN After(c, n, stk) ELSE BodyFrom(c, n, CHOOSE j \in ds : \A k \in ds : j <= k, stk)
RECURSIVE CsFrom(_, _, _, _)
CsFrom(c, n, j, stk) ==
  IF j > Len(N(c)[n].cases) THEN DefaultEntry(c, n, stk)
  ELSE IF N(c)[n].cases[j].isDef THEN CsFrom(c, n, j + 1, stk) ELSE Cfg(Pt("Cs", n, 0, j), stk)

\* macro parameters: a token naming a parameter of the macro being expanded stands for the call's argument,
\* itself read in the caller's context (pass-through through nested calls)
RECURSIVE Resolve(_, _, _)
Resolve(c, tok, stk) ==
  IF stk = <<>> THEN tok
  ELSE LET site == Head(stk)
           m == c.macros[MacroIdx(c, N(c)[site].name)]
           idxs == {i \in 1..Len(m.params) : m.params[i] = tok /\ i <= Len(N(c)[site].a)}
       IN IF idxs = {} THEN tok
          ELSE Resolve(c, N(c)[site].a[CHOOSE i \in idxs : \A k \in idxs : i <= k], Tail(stk))
Res(c, lbl, stk) == [op |-> lbl.op, ps |-> [i \in 1..Len(lbl.ps) |-> Resolve(c, lbl.ps[i], stk)]]

NodeHdr(nd) == [f |-> nd.f, a |-> nd.a]
HasInlineCtx(nd) == nd.k = "op" /\ nd.ctx.f # ""

\* ---- kind of the step a configuration takes: "tau" | "op" | "test" | "stop"
SKind(c, cfg) ==
  LET pt == cfg.pt IN
  CASE pt.t = "Off" -> "stop"
    [] pt.t \in {"Hdr", "Cs", "Tst"} -> "test"
    [] pt.t = "Mc" -> "op"
    [] pt.t = "Op2" -> IF Lbl(NodeHdr(N(c)[pt.n]), "").op \in StopNames THEN "stop" ELSE "op"
    [] pt.t = "At" -> LET nd == N(c)[pt.n] IN
         CASE nd.k = "op" -> IF HasInlineCtx(nd) THEN "op"
                             ELSE IF Lbl(NodeHdr(nd), "").op \in StopNames THEN "stop" ELSE "op"
           [] nd.k = "ctrl" -> IF nd.f = "return" /\ cfg.stk # <<>> THEN "tau" ELSE "stop"
           [] nd.k \in {"switch", "msw", "with"} -> "op"
           [] nd.k = "call" -> "test"
           [] OTHER -> "tau"

\* ---- the label of an observable step
SLbl(c, cfg) ==
  LET pt == cfg.pt IN
  CASE pt.t = "Off" -> L("Return", <<>>)
    [] pt.t = "Hdr" -> Res(c, Lbl(N(c)[pt.n].arms[pt.a].hs[pt.j], ""), cfg.stk)
    [] pt.t = "Cs"  -> Res(c, Lbl(N(c)[pt.n].cases[pt.j].h, SwName(N(c)[pt.n].h)), cfg.stk)
    [] pt.t = "Tst" -> Res(c, Lbl(N(c)[pt.n].h, ""), cfg.stk)
    [] pt.t = "Mc"  -> Res(c, CaseTextLbl(N(c)[pt.n].cases[pt.j]), cfg.stk)
    [] pt.t = "Op2" -> Res(c, Lbl(NodeHdr(N(c)[pt.n]), ""), cfg.stk)
    [] pt.t = "At"  -> LET nd == N(c)[pt.n] IN
         CASE nd.k = "op" -> IF HasInlineCtx(nd) THEN Res(c, Lbl(nd.ctx, ""), cfg.stk)
                             ELSE Res(c, Lbl(NodeHdr(nd), ""), cfg.stk)
           [] nd.k = "ctrl" -> Lbl(NodeHdr(nd), "")
           [] nd.k \in {"switch", "msw"} -> Res(c, Lbl(nd.h, ""), cfg.stk)
           [] nd.k = "with" -> Res(c, Lbl(nd.ctx, ""), cfg.stk)
           [] nd.k = "call" -> L("Call", <<>>)

\* ---- successor; `taken' matters only for test steps
SNext(c, cfg, taken) ==
  LET pt == cfg.pt  stk == cfg.stk IN
  CASE pt.t = "Hdr" ->
         LET arm == N(c)[pt.n].arms[pt.a] IN
         IF taken THEN (IF arm.neg THEN NextArm(c, pt.n, pt.a, stk) ELSE Enter(arm.body, After(c, pt.n, stk), stk))
         ELSE IF pt.j < Len(arm.hs) THEN Cfg(Pt("Hdr", pt.n, pt.a, pt.j + 1), stk)
         ELSE (IF arm.neg THEN Enter(arm.body, After(c, pt.n, stk), stk) ELSE NextArm(c, pt.n, pt.a, stk))
    [] pt.t = "Cs" -> IF taken THEN BodyFrom(c, pt.n, pt.j, stk) ELSE CsFrom(c, pt.n, pt.j + 1, stk)
    [] pt.t = "Tst" ->
         LET nd == N(c)[pt.n] IN
         IF taken # nd.neg
         THEN Enter(nd.body, IF nd.k = "for" THEN Cfg(AtP(nd.incr), stk) ELSE cfg, stk)
         ELSE After(c, pt.n, stk)
    [] pt.t = "Mc" -> IF pt.j < Len(N(c)[pt.n].cases) THEN Cfg(Pt("Mc", pt.n, 0, pt.j + 1), stk) ELSE After(c, pt.n, stk)
    [] pt.t = "Op2" -> After(c, pt.n, stk)
    [] pt.t = "At" ->
         LET nd == N(c)[pt.n] IN
         CASE nd.k = "op" -> IF HasInlineCtx(nd) THEN Cfg(Pt("Op2", pt.n, 0, 0), stk) ELSE After(c, pt.n, stk)
           [] nd.k = "ctrl" -> After(c, Head(stk), Tail(stk))        \* `return' inside a macro leaves only the macro
           [] nd.k = "label" -> After(c, pt.n, stk)
           [] nd.k = "jump" -> Cfg(AtP(LabelNode(c, nd.name, pt.n)), stk)
           [] nd.k = "call" -> IF taken THEN Cfg(AtP(LabelNode(c, nd.name, pt.n)), stk) ELSE After(c, pt.n, stk)
           [] nd.k = "break" -> After(c, EnclSwitch(c, pt.n), stk)
           [] nd.k = "break_loop" -> After(c, EnclLoop(c, pt.n), stk)
           [] nd.k = "continue" ->
                LET l == EnclLoop(c, pt.n) IN
                (CASE N(c)[l].k = "forever" -> Enter(N(c)[l].body, Cfg(AtP(l), stk), stk)
                   [] N(c)[l].k = "while" -> Cfg(Pt("Tst", l, 0, 0), stk)
                   [] N(c)[l].k = "for" -> Cfg(AtP(N(c)[l].incr), stk))
           [] nd.k = "if" -> Cfg(Pt("Hdr", pt.n, 1, 1), stk)
           [] nd.k = "switch" -> CsFrom(c, pt.n, 1, stk)
           [] nd.k = "msw" -> IF Len(nd.cases) > 0 THEN Cfg(Pt("Mc", pt.n, 0, 1), stk) ELSE After(c, pt.n, stk)
           [] nd.k = "with" -> Cfg(AtP(nd.inner), stk)
           [] nd.k = "forever" -> Enter(nd.body, cfg, stk)
           [] nd.k = "while" -> Cfg(Pt("Tst", pt.n, 0, 0), stk)
           [] nd.k = "for" -> Cfg(AtP(nd.init), stk)
           [] nd.k = "mcall" ->
                Enter(c.macros[MacroIdx(c, nd.name)].body, After(c, pt.n, stk), <<pt.n>> \o stk)

\* the source position (statement / header start) an observable step is written at - for source maps (C08)
SPos(c, cfg) ==
  LET pt == cfg.pt IN
  CASE pt.t = "Hdr" -> <<N(c)[pt.n].arms[pt.a].hs[pt.j].line, N(c)[pt.n].arms[pt.a].hs[pt.j].col>>
    [] pt.t = "Cs"  -> <<N(c)[pt.n].cases[pt.j].h.line, N(c)[pt.n].cases[pt.j].h.col>>
    [] pt.t = "Tst" -> <<N(c)[pt.n].h.line, N(c)[pt.n].h.col>>
    [] pt.t = "Off" -> <<-1, -1>>
    [] OTHER -> <<N(c)[pt.n].line, N(c)[pt.n].col>>
=============================================================================
