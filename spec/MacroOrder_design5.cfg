SPECIFICATION Spec
CONSTANTS N = 5
 Deviations = {}
 UseCases = FALSE
INVARIANT DesignTopological
CHECK_DEADLOCK FALSE
