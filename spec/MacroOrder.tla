----------------------------- MODULE MacroOrder -----------------------------
(***************************************************************************)
(* C05 (order part)  Every acyclic set of macro definitions compiles       *)
(* whatever the order in which the macros are written.                     *)
(*                                                                         *)
(* Two things live here.                                                   *)
(*  1. The design: a macro can only be expanded into another once it has   *)
(*     been compiled itself, so the resolver must emit callees before      *)
(*     callers.  `Resolver' is a state machine (Kahn's algorithm over the  *)
(*     callee -> caller graph, the design the code uses after the repair:  *)
(*     a topological sort); the named deviation "BfsOrder" is the design   *)
(*     the pinned tree shipped with (breadth-first traversals from the     *)
(*     in-degree-0 vertices, move-to-back on revisit).  TLC explores every *)
(*     DAG on <= N macros: under Deviations = {} `IsTopological' holds,    *)
(*     under {"BfsOrder"} TLC produces the diamond counterexample.         *)
(*  2. Validation of the real resolver: recorded (call graph, definition   *)
(*     order, macro_resolution_order, outcome) cases are initial states    *)
(*     of the same machine and the recorded order must itself be           *)
(*     topological and complete, and the compile must have succeeded.      *)
(***************************************************************************)
EXTENDS Naturals, Sequences, FiniteSets, TLC, Json, IOUtils
CONSTANTS N, Deviations, UseCases
Cases == IF UseCases THEN JsonDeserialize(IOEnv.CASES_FILE) ELSE <<>>

Nodes == 1..N
\* calls \subseteq Nodes \X Nodes, <<a, b>> : macro a calls macro b.  Acyclic: only a < b (up to renaming).
AllDags == SUBSET {<<a, b>> \in Nodes \X Nodes : a < b}

VARIABLES calls, order, done, queue, mode, cid
vars == <<calls, order, done, queue, mode, cid>>

Callees(g, a) == {b \in Nodes : <<a, b>> \in g}
Callers(g, b) == {a \in Nodes : <<a, b>> \in g}
Index(seq, x) == CHOOSE i \in 1..Len(seq) : seq[i] = x
Occurs(seq, x) == \E i \in 1..Len(seq) : seq[i] = x
Remove(seq, x) == SelectSeq(seq, LAMBDA y : y # x)

IsTopological(g, seq, nodes) ==
  /\ \A x \in nodes : Occurs(seq, x)
  /\ \A e \in g : Occurs(seq, e[1]) /\ Occurs(seq, e[2]) => Index(seq, e[2]) < Index(seq, e[1])

Init ==
  IF UseCases
  THEN /\ cid \in 1..Len(Cases) /\ mode = "validate" /\ calls = {} /\ order = <<>> /\ done = {} /\ queue = <<>>
  ELSE /\ cid = 0 /\ mode = "run" /\ calls \in AllDags /\ order = <<>> /\ done = {} /\ queue = <<>>

\* ---- the repaired design: emit any macro all of whose callees have been emitted
Kahn == /\ mode = "run" /\ "BfsOrder" \notin Deviations
        /\ \E x \in Nodes \ done :
              /\ Callees(calls, x) \subseteq done
              /\ order' = Append(order, x) /\ done' = done \cup {x}
        /\ UNCHANGED <<calls, queue, mode, cid>>

\* ---- named deviation: the breadth-first design of the pinned tree
\* roots = macros that call nothing; for each root a BFS along callee -> caller edges; a vertex met again is
\* moved to the back.  queue = <<root index, bfs frontier, local order>> flattened into `queue' as a sequence.
Roots == {x \in Nodes : Callees(calls, x) = {}}
RECURSIVE BfsFrom(_, _, _)
BfsFrom(g, frontier, seen) ==   \* deterministic BFS: lowest vertex first
  IF frontier = <<>> THEN <<>>
  ELSE LET x == Head(frontier)
           nxt == {a \in Callers(g, x) : a \notin seen}
           RECURSIVE SetToSeq(_)
           SetToSeq(S) == IF S = {} THEN <<>> ELSE LET m == CHOOSE y \in S : \A z \in S : y <= z IN <<m>> \o SetToSeq(S \ {m})
       IN <<x>> \o BfsFrom(g, Tail(frontier) \o SetToSeq(nxt), seen \cup nxt)
Bfs == /\ mode = "run" /\ "BfsOrder" \in Deviations
       /\ \E r \in Roots \ done :
             /\ \A q \in Roots \ done : r <= q
             /\ LET local == BfsFrom(calls, <<r>>, {r})
                    RECURSIVE Strip(_, _)
                    Strip(seq, i) == IF i > Len(local) THEN seq ELSE Strip(Remove(seq, local[i]), i + 1)
                IN order' = Strip(order, 1) \o local
             /\ done' = done \cup {r}
       /\ UNCHANGED <<calls, queue, mode, cid>>

Finish == /\ mode = "run"
          /\ IF "BfsOrder" \in Deviations THEN Roots \subseteq done ELSE done = Nodes
          /\ mode' = "finished" /\ UNCHANGED <<calls, order, done, queue, cid>>

Next == Kahn \/ Bfs \/ Finish
Spec == Init /\ [][Next]_vars

DesignTopological == mode = "finished" => IsTopological(calls, order, Nodes)

\* ---- validation of recorded runs of the real resolver
CaseCalls(c) == {<<Cases[c].calls[i][1], Cases[c].calls[i][2]>> : i \in 1..Len(Cases[c].calls)}
CaseNodes(c) == {Cases[c].names[i] : i \in 1..Len(Cases[c].names)}
Verdict(c) == IF Cases[c].status # "ok" THEN "rejected"
              ELSE IF ~IsTopological(CaseCalls(c), Cases[c].mro, CaseNodes(c)) THEN "order" ELSE "ok"
Compiles == mode = "validate" => Verdict(cid) = "ok"
Report == (mode = "validate" /\ Verdict(cid) # "ok") => PrintT(<<"VIOL", cid, Verdict(cid)>>)
=============================================================================
