--------------------------- MODULE StaticValidity ---------------------------
(***************************************************************************)
(* C10  Compilation fails only in documented ways and rejects meaningless  *)
(* programs.                                                               *)
(*                                                                         *)
(* Outcome part: compile() is a machine  Start -> Ok | ParseError |        *)
(* SsbCompilerError | ValueError ; any other exception type (and no answer *)
(* at all) has no action.                                                  *)
(* Validity part: Valid(c) is the conjunction of exactly the classes the   *)
(* property lists, over the node table of a syntactically correct program  *)
(* and the import graph of its file tree.  ~Valid(c) => outcome # Ok.      *)
(* (Nothing is demanded here for valid programs: their acceptance is       *)
(* C01/C05's business.)                                                    *)
(***************************************************************************)
EXTENDS ExpsSemantics, Json, IOUtils
Cases == JsonDeserialize(IOEnv.CASES_FILE)
VARIABLES cid, phase
vars == <<cid, phase>>

Allowed == {"ok", "ParseError", "SsbCompilerError", "ValueError"}
Nodes(c) == 1..Len(c.nodes)

BreakOk(c) == \A n \in Nodes(c) : c.nodes[n].k = "break" => EnclSwitch(c, n) # 0
LoopCtlOk(c) == \A n \in Nodes(c) : c.nodes[n].k \in {"continue", "break_loop"} => EnclLoop(c, n) # 0
LabelsOk(c) == \A n \in Nodes(c) : c.nodes[n].k \in {"jump", "call"} => LabelNodes(c, c.nodes[n].name, n) # {}
SwitchEndOk(c) == \A n \in Nodes(c) : c.nodes[n].k = "switch" /\ Len(c.nodes[n].cases) > 0 =>
                      LET last == c.nodes[n].cases[Len(c.nodes[n].cases)] IN last.isMsg \/ Len(last.body) > 0
OneDefault(c) == \A n \in Nodes(c) : c.nodes[n].k \in {"switch", "msw"} =>
                      Cardinality({j \in 1..Len(c.nodes[n].cases) : c.nodes[n].cases[j].isDef}) <= 1
MswOk(c) == \A n \in Nodes(c) : c.nodes[n].k = "msw" => \A j \in 1..Len(c.nodes[n].cases) : c.nodes[n].cases[j].isMsg
SwitchCasesOk(c) == \A n \in Nodes(c) : c.nodes[n].k = "switch" => \A j \in 1..Len(c.nodes[n].cases) : ~c.nodes[n].cases[j].isMsg
WithOk(c) == \A n \in Nodes(c) : c.nodes[n].k = "with" => c.nodes[c.nodes[n].inner].k # "label"
\* `not' on a bit test is only defined for the performance progress list
AllHeaders(c) == UNION {UNION {{c.nodes[n].arms[a].hs[j] : j \in 1..Len(c.nodes[n].arms[a].hs)} : a \in 1..Len(c.nodes[n].arms)} : n \in Nodes(c)}
                 \cup {c.nodes[n].h : n \in {m \in Nodes(c) : c.nodes[m].k \in {"while", "for"}}}
BitNotOk(c) == \A h \in AllHeaders(c) : (h.f = "c_bit" /\ h.a[3] = "1") => h.a[1] = PPLTok
\* macros: known, enough arguments, acyclic
CallsOf(c, m) == {c.nodes[n].name : n \in {k \in Nodes(c) : c.nodes[k].k = "mcall" /\ Par(c)[k].rk = "m" /\ Par(c)[k].ri = m}}
MacrosKnown(c) == \A n \in Nodes(c) : c.nodes[n].k = "mcall" => MacroDefined(c, c.nodes[n].name)
ArgsOk(c) == \A n \in Nodes(c) : (c.nodes[n].k = "mcall" /\ MacroDefined(c, c.nodes[n].name)) =>
                 Len(c.nodes[n].a) >= Len(c.macros[MacroIdx(c, c.nodes[n].name)].params)
RECURSIVE Reach(_, _, _)
Reach(c, frontier, seen) ==
  LET nxt == UNION {{MacroIdx(c, nm) : nm \in {x \in CallsOf(c, m) : MacroDefined(c, x)}} : m \in frontier} \ seen
  IN IF nxt = {} THEN seen ELSE Reach(c, nxt, seen \cup nxt)
Acyclic(c) == \A m \in 1..Len(c.macros) : m \notin Reach(c, {m}, {})
\* imports: every import exists, no cycle, no routine in an imported file
ImportsOk(c) == c.importsResolvable /\ ~c.importCycle /\ ~c.routineInImport

Valid(c) == /\ BreakOk(c) /\ LoopCtlOk(c) /\ LabelsOk(c) /\ SwitchEndOk(c) /\ OneDefault(c) /\ MswOk(c)
            /\ WithOk(c) /\ BitNotOk(c) /\ MacrosKnown(c) /\ ArgsOk(c) /\ Acyclic(c) /\ ImportsOk(c)
FirstBroken(c) ==
  CASE ~BreakOk(c) -> "break-outside-case" [] ~LoopCtlOk(c) -> "loop-control-outside-loop" [] ~LabelsOk(c) -> "undefined-label"
    [] ~SwitchEndOk(c) -> "switch-ends-in-empty-case" [] ~OneDefault(c) -> "two-defaults" [] ~MswOk(c) -> "statements-in-message-switch"
    [] ~WithOk(c) -> "label-in-with" [] ~BitNotOk(c) -> "not-on-bit-test"
    [] ~MacrosKnown(c) -> "unknown-macro" [] ~ArgsOk(c) -> "too-few-arguments" [] ~Acyclic(c) -> "recursive-macro"
    [] ~ImportsOk(c) -> "bad-import" [] OTHER -> "valid"

Init == cid \in 1..Len(Cases) /\ phase = "start"
\* one action per documented outcome; an undocumented exception type (or a hang) enables nothing
Finish(o) == /\ phase = "start" /\ Cases[cid].outcome = o
             /\ phase' = IF o = "ok" /\ Cases[cid].hasTable /\ ~Valid(Cases[cid]) THEN "accepted-invalid" ELSE "finished"
             /\ UNCHANGED cid
Next == \E o \in Allowed : Finish(o)
Spec == Init /\ [][Next]_vars

Stuck == phase = "start" /\ Cases[cid].outcome \notin Allowed
DocumentedOutcome == ~Stuck
RejectsMeaningless == phase # "accepted-invalid"
Report == (Stuck \/ phase = "accepted-invalid") =>
   PrintT(<<"VIOL", cid, IF Stuck THEN "undocumented-outcome" ELSE "accepted-invalid", IF Stuck THEN Cases[cid].outcome ELSE FirstBroken(Cases[cid])>>)
=============================================================================
