------------------------------ MODULE CliContract ------------------------------
(***************************************************************************)
(* C15  The compile CLI prints what the decompile CLI (and the docs)       *)
(* expect.                                                                 *)
(*                                                                         *)
(* One case = one run of `python -m explorerscript.cli.compile' (and, on   *)
(* its output or on a hand-built document following docs/cli_api_usage.rst,*)
(* of `python -m explorerscript.cli.decompile'), recorded as exit status,  *)
(* parsed JSON document and - for reference - what the compile API         *)
(* returned for the same source.  The contract as a state machine:         *)
(*   RunCompile   exit status 0 exactly when the API accepts the source    *)
(*   ReadDocument documented structure (settings, routines, type-specific  *)
(*                keys); walks the ops: every jump parameter is the        *)
(*                1-based position, counted across all routines, of the op *)
(*                the API result identifies as the target                  *)
(*   RunDecompile the decompile command accepts the document (exit 0)      *)
(* Behavioural agreement of the decompiled text with the source is checked *)
(* by ByteEquiv on the same run.                                           *)
(***************************************************************************)
EXTENDS Ssb, TLC, Json, IOUtils
Cases == JsonDeserialize(IOEnv.CASES_FILE)
VARIABLES cid, phase, st
vars == <<cid, phase, st>>

Doc(c) == Cases[c].doc                 \* seq of routines [type, hasName, hasTarget, ops: seq of [opcode, jump (last param as int, -1 if not an int), nparams]]
Api(c) == Cases[c].api                 \* routine set (records with off / tgt) the API produced for the same source
RoutineTypes == {"GENERIC", "ACTOR", "OBJECT", "PERFORMER", "COROUTINE"}

RECURSIVE CountBefore(_, _)
CountBefore(R, r) == IF r = 1 THEN 0 ELSE Len(R[r - 1]) + CountBefore(R, r - 1)
PositionOf(R, off) == LET p == CHOOSE p \in PosOf(R, off) : TRUE IN CountBefore(R, p[1]) + p[2]     \* 1-based, across all routines

ShapeOk(c) ==
  /\ Cases[c].hasSettings
  /\ Len(Doc(c)) = Len(Api(c))
  /\ \A r \in 1..Len(Doc(c)) :
       /\ Doc(c)[r].type \in RoutineTypes
       /\ Doc(c)[r].type = Cases[c].apiKinds[r]
       /\ (Doc(c)[r].type = "COROUTINE" => Doc(c)[r].hasName)
       /\ (Doc(c)[r].type \in {"ACTOR", "OBJECT", "PERFORMER"} => Doc(c)[r].hasTarget)
       /\ Len(Doc(c)[r].ops) = Len(Api(c)[r])
       /\ \A i \in 1..Len(Doc(c)[r].ops) : Doc(c)[r].ops[i].opcode = Api(c)[r][i].op
JumpsArePositions(c) ==
  \A r \in 1..Len(Doc(c)) : \A i \in 1..Len(Doc(c)[r].ops) :
     Api(c)[r][i].op \in JumpCarrying =>
        /\ PosOf(Api(c), Api(c)[r][i].tgt) # {}
        /\ Doc(c)[r].ops[i].jump = PositionOf(Api(c), Api(c)[r][i].tgt)

Init == cid \in 1..Len(Cases) /\ phase = "start" /\ st = "ok"
RunCompile == /\ phase = "start" /\ st = "ok" /\ Cases[cid].kind \in {"compile", "compile-only"}
              /\ phase' = IF Cases[cid].apiStatus = "ok" /\ Cases[cid].inputOk THEN "compiled" ELSE "done"
              \* success = the source is accepted AND the invocation is as documented (settings document complete, files readable)
              /\ st' = IF (Cases[cid].compileExit = 0) # (Cases[cid].apiStatus = "ok" /\ Cases[cid].inputOk) THEN "exit-status-does-not-reflect-success"
                       ELSE IF Cases[cid].apiStatus = "ok" /\ Cases[cid].inputOk /\ ~Cases[cid].docParsed THEN "output-is-not-json" ELSE "ok"
              /\ UNCHANGED cid
ReadDocument == /\ phase = "compiled" /\ st = "ok"
                /\ phase' = "read"
                /\ st' = IF ~ShapeOk(cid) THEN "document-structure" ELSE IF ~JumpsArePositions(cid) THEN "jump-parameter-is-not-a-position" ELSE "ok"
                /\ UNCHANGED cid
\* kind "compile-only": a compile run whose document is not fed to the decompile command (runs with --lookup and imports)
RunDecompile == /\ st = "ok" /\ ((phase = "read" /\ Cases[cid].kind # "compile-only") \/ (phase = "start" /\ Cases[cid].kind = "decompile"))
                /\ phase' = "done"
                /\ st' = IF Cases[cid].inputOk /\ Cases[cid].decompileExit # 0 THEN "decompile-command-rejects-document"
                         ELSE IF ~Cases[cid].inputOk /\ Cases[cid].decompileExit = 0 THEN "decompile-exit-0-on-invalid-document" ELSE "ok"
                /\ UNCHANGED cid
Next == RunCompile \/ ReadDocument \/ RunDecompile
Spec == Init /\ [][Next]_vars
Contract == st = "ok"
Report == st # "ok" => PrintT(<<"VIOL", cid, st>>)
=============================================================================
