------------------------------- MODULE Ssb -------------------------------
(***************************************************************************)
(* Vocabulary of SSB routine sets shared by all specifications.            *)
(*                                                                         *)
(* A routine set R is a sequence of routines; a routine is a sequence of   *)
(* op records  [off |-> Int, op |-> STRING, ps |-> Seq(STRING),            *)
(*              tgt |-> Int (-1 = none), pseudo |-> BOOLEAN].              *)
(* `ps' are canonical parameter tokens WITHOUT the jump target; `tgt' is   *)
(* the offset the op jumps to when taken.  The opcode tables below are the *)
(* ones the property statements name (C01, C03) and docs/language_spec.rst *)
(* lists; they are deliberately written out here and not imported from the*)
(* code under test.                                                        *)
(***************************************************************************)
EXTENDS Naturals, Integers, Sequences, FiniteSets

BranchOps == {"Branch", "BranchBit", "BranchDebug", "BranchEdit", "BranchExecuteSub",
              "BranchPerformance", "BranchScenarioNow", "BranchScenarioNowAfter",
              "BranchScenarioNowBefore", "BranchScenarioAfter", "BranchScenarioBefore",
              "BranchSum", "BranchValue", "BranchVariable", "BranchVariation"}
CaseOps   == {"Case", "CaseMenu", "CaseMenu2", "CaseScenario", "CaseValue", "CaseVariable"}
TestOps   == BranchOps \cup CaseOps \cup {"Call"}
JumpCarrying == TestOps \cup {"Jump"}
StopOps   == {"Return", "End", "Hold", "JumpCommon", "Destroy"}
CtxOps    == {"lives", "object", "performer"}

\* number of non-target parameters of the jump-carrying ops (= index of the target parameter)
JumpArity(op) ==
  CASE op \in {"Jump", "Call"} -> 0
    [] op \in {"BranchDebug", "BranchEdit", "BranchExecuteSub", "BranchVariation",
               "Case", "CaseMenu", "CaseMenu2"} -> 1
    [] op \in {"Branch", "BranchBit", "BranchPerformance", "CaseScenario", "CaseValue", "CaseVariable"} -> 2
    [] OTHER -> 3

Kind(op) == CASE op = "Jump"    -> "jump"
              [] op \in TestOps  -> "test"
              [] op \in StopOps  -> "stop"
              [] op \in CtxOps   -> "ctx"
              [] OTHER           -> "plain"

Positions(R) == {<<r, i>> : r \in 1..Len(R), i \in 1..20} \* over-approximation, filtered below
AllPos(R) == UNION {{<<r, i>> : i \in 1..Len(R[r])} : r \in 1..Len(R)}
PosOf(R, off) == {p \in AllPos(R) : R[p[1]][p[2]].off = off}
Offsets(R) == {R[p[1]][p[2]].off : p \in AllPos(R)}
NumOps(R) == Cardinality(AllPos(R))

\* two ops are the same op up to renumbering of offsets: opcode, parameters, and the jump
\* parameter of each denotes the op at the same position of its own routine set
SameOp(A, B, r, i) ==
  LET a == A[r][i]  b == B[r][i] IN
  /\ a.op = b.op
  /\ a.ps = b.ps
  /\ (a.tgt = -1) = (b.tgt = -1)
  /\ a.tgt # -1 => /\ Cardinality(PosOf(A, a.tgt)) = 1
                   /\ PosOf(A, a.tgt) = PosOf(B, b.tgt)

SameUpToRenumber(A, B) ==
  /\ Len(A) = Len(B)
  /\ \A r \in 1..Len(A) : /\ Len(A[r]) = Len(B[r])
                          /\ \A i \in 1..Len(A[r]) : SameOp(A, B, r, i)

SameInfos(IA, IB) ==
  /\ Len(IA) = Len(IB)
  /\ \A r \in 1..Len(IA) : IA[r].kind = IB[r].kind /\ IA[r].target = IB[r].target /\ IA[r].coro = IB[r].coro
=============================================================================
