----------------------------- MODULE SrcMapEquiv -----------------------------
(***************************************************************************)
(* C08  Compile-time source map: every emitted op maps to where it was     *)
(* written.                                                                *)
(*                                                                         *)
(* The lock-step product of CompileEquiv, where every bytecode op carries  *)
(* the source-map entry the real compiler recorded for its offset          *)
(*    o.sm = [kind: "direct" | "macro" | "none", file, macro, line, col,   *)
(*            ci (<<>> or <<file, line, col>>), ra]                        *)
(* and every Sync additionally demands that the entry is the one the       *)
(* source position tables prescribe for the source step (MapAgrees):       *)
(*  - op written directly in the compiled file (empty call stack): a       *)
(*    direct entry at the statement / condition / switch header / case     *)
(*    header start;                                                        *)
(*  - op coming from a macro: a macro entry naming the defining file       *)
(*    (relative to the compiled file, "<none>" for the same file), the     *)
(*    macro, the position in that file, a return address behind the op,    *)
(*    and - on the first op after a call - the position of the call.       *)
(* The static initial state checks EveryOpMapped, the layout scan of the   *)
(* return addresses (LayoutOk), the included files and the position marks. *)
(***************************************************************************)
EXTENDS ExpsSemantics, Ssb, Json, IOUtils
Cases == JsonDeserialize(IOEnv.CASES_FILE)
VARIABLES cid, rt, s, b, st, fresh
vars == <<cid, rt, s, b, st, fresh>>
\* fresh = call-site node of a macro call whose expansion has not shown an op yet (0 = none)

R(c) == Cases[c].ops
Src(c) == Cases[c]
OffOp == [off |-> -1, op |-> "Return", ps |-> <<>>, tgt |-> -1, pseudo |-> FALSE,
          sm |-> [kind |-> "off", file |-> "", macro |-> "", line |-> -1, col |-> -1, ci |-> <<>>, ra |-> -1]]
BOp(c, p) == IF p[2] <= Len(R(c)[p[1]]) THEN R(c)[p[1]][p[2]] ELSE OffOp
BKindOf(o) == LET k == Kind(o.op) IN IF k \in {"ctx", "plain"} THEN "op" ELSE k
BLbl(o) == [op |-> o.op, ps |-> o.ps]
Goto(c, off) == LET ps == PosOf(R(c), off) IN IF ps = {} THEN <<0, 0>> ELSE CHOOSE p \in ps : TRUE

\* ---- what the position tables prescribe
FileOfNode(c, n) == IF Par(c)[n].rk = "m" THEN c.macros[Par(c)[n].ri].file ELSE ""
FileTok(f) == IF f = "" THEN "<none>" ELSE f
ExpectedPos(c, cfg) ==
  LET pt == cfg.pt IN
  CASE pt.t = "At" /\ N(c)[pt.n].k = "switch" -> {<<N(c)[pt.n].h.line, N(c)[pt.n].h.col>>}
    [] pt.t = "Mc" -> {<<N(c)[pt.n].cases[pt.j].cline, N(c)[pt.n].cases[pt.j].ccol>>, <<N(c)[pt.n].cases[pt.j].h.line, N(c)[pt.n].cases[pt.j].h.col>>}
    [] OTHER -> {SPos(c, cfg)}
NodeOf(cfg) == cfg.pt.n
EntryOk(c, cfg, o, fr) ==
  IF cfg.pt.t = "Off" THEN o.sm.kind \in {"direct", "macro", "off"}
  ELSE IF cfg.stk = <<>>
       THEN o.sm.kind = "direct" /\ <<o.sm.line, o.sm.col>> \in ExpectedPos(c, cfg)
       ELSE LET mi == Par(c)[NodeOf(cfg)].ri IN
            /\ o.sm.kind = "macro"
            /\ o.sm.file = FileTok(c.macros[mi].file)
            /\ o.sm.macro = c.macros[mi].name
            /\ <<o.sm.line, o.sm.col>> \in ExpectedPos(c, cfg)
            /\ o.sm.ra > o.off
            /\ fr # 0 => o.sm.ci = <<FileTok(FileOfNode(c, fr)), ToString(N(c)[fr].line), ToString(N(c)[fr].col)>>

\* ---- static checks
RECURSIVE FlatFrom(_, _)
FlatFrom(RR, r) == IF r > Len(RR) THEN <<>> ELSE RR[r] \o FlatFrom(RR, r + 1)
EveryOpMapped(c) == \A p \in AllPos(R(c)) : R(c)[p[1]][p[2]].sm.kind \in {"direct", "macro"}
\* layout scan of the return addresses, per routine: all ops sharing a return address ra form one expansion frame;
\* ra lies behind every op of the frame, and the op that follows the frame's last op either is not before ra or
\* belongs to a frame nested in it
LayoutOk(c) ==
  \A r \in 1..Len(R(c)) :
    LET ops == R(c)[r]
        ras == {ops[k].sm.ra : k \in {j \in 1..Len(ops) : ops[j].sm.kind = "macro"}} IN
    \A ra \in ras :
      LET grp == {k \in 1..Len(ops) : ops[k].sm.kind = "macro" /\ ops[k].sm.ra = ra}
          last == CHOOSE k \in grp : \A j \in grp : j <= k IN
      /\ \A k \in grp : ops[k].off < ra
      /\ last < Len(ops) => \/ ops[last + 1].off >= ra
                            \/ (ops[last + 1].sm.kind = "macro" /\ ops[last + 1].sm.ra <= ra)
\* A loop keyword is the position of the ONE jump the loop itself needs (forever: back to the start; while / for: to the test).  The jumps
\* of `continue;`, `break_loop;` ... are statements of their own and are mapped to where they are written - a second Jump mapped to
\* the position of a loop keyword is such a statement with the wrong entry.
LoopNodes(c) == {n \in 1..Len(N(Src(c))) : N(Src(c))[n].k \in {"forever", "while", "for"} /\ Par(Src(c))[n].rk # "m"}
JumpsMappedAt(c, line, col) == {p \in AllPos(R(c)) : LET o == R(c)[p[1]][p[2]] IN
                                  o.op = "Jump" /\ o.sm.kind = "direct" /\ o.sm.line = line /\ o.sm.col = col}
LoopJumpsOk(c) == \A n \in LoopNodes(c) : Cardinality(JumpsMappedAt(c, N(Src(c))[n].line, N(Src(c))[n].col)) <= 1
IncludedOk(c) == {x \in {R(c)[p[1]][p[2]].sm.file : p \in {q \in AllPos(R(c)) : R(c)[q[1]][q[2]].sm.kind = "macro"}} : x # "<none>"}
                   = {Src(c).includedReported[i] : i \in 1..Len(Src(c).includedReported)}
MarksOk(c) == /\ \A i \in 1..Len(Src(c).emittedMarks) : \E j \in 1..Len(Src(c).recordedMarks) : Src(c).recordedMarks[j].val = Src(c).emittedMarks[i]
              /\ Src(c).directMarksExact => Src(c).recordedDirect = Src(c).expectedDirect
Static(c) == IF ~EveryOpMapped(c) THEN "unmapped-op" ELSE IF ~LayoutOk(c) THEN "return-address-layout"
             ELSE IF ~LoopJumpsOk(c) THEN "loop-keyword-jumps"
             ELSE IF ~IncludedOk(c) THEN "included-files" ELSE IF ~MarksOk(c) THEN "position-marks" ELSE "done"

Init ==
  /\ cid \in 1..Len(Cases) /\ fresh = 0
  /\ \/ /\ rt = 0 /\ s = OffCfg /\ b = <<0, 0>> /\ st = Static(cid)
     \/ /\ rt \in {k \in 1..Len(Src(cid).routines) : ~Src(cid).routines[k].alias /\ Src(cid).routines[k].rix \in 1..Len(R(cid))}
        /\ s = Enter(Src(cid).routines[rt].body, OffCfg, <<>>)
        /\ b = <<Src(cid).routines[rt].rix, 1>>
        /\ st = "run"

IsCall(c, cfg) == cfg.pt.t = "At" /\ N(c)[cfg.pt.n].k = "mcall"
TauS == /\ st = "run" /\ SKind(Src(cid), s) = "tau"
        /\ s' = SNext(Src(cid), s, FALSE)
        /\ fresh' = IF IsCall(Src(cid), s) THEN s.pt.n ELSE fresh
        /\ UNCHANGED <<cid, rt, b, st>>
TauB == /\ st = "run" /\ SKind(Src(cid), s) # "tau" /\ BKindOf(BOp(cid, b)) = "jump"
        /\ LET g == Goto(cid, BOp(cid, b).tgt) IN
           IF g = <<0, 0>> THEN st' = "crash" /\ UNCHANGED b ELSE b' = g /\ st' = st
        /\ UNCHANGED <<cid, rt, s, fresh>>
Sync == /\ st = "run" /\ SKind(Src(cid), s) # "tau" /\ BKindOf(BOp(cid, b)) # "jump"
        /\ LET sk == SKind(Src(cid), s)  sl == SLbl(Src(cid), s)  bo == BOp(cid, b) IN
           IF sk # BKindOf(bo) \/ sl # BLbl(bo) THEN st' = "behaviour" /\ UNCHANGED <<s, b>>     \* C01's business; the case is skipped
           ELSE IF ~EntryOk(Src(cid), s, bo, fresh) THEN st' = "map-mismatch" /\ UNCHANGED <<s, b>>
           ELSE CASE sk = "op" -> s' = SNext(Src(cid), s, FALSE) /\ b' = <<b[1], b[2] + 1>> /\ st' = st
                  [] sk = "test" -> \E taken \in BOOLEAN :
                        /\ s' = SNext(Src(cid), s, taken)
                        /\ IF taken THEN LET g == Goto(cid, bo.tgt) IN IF g = <<0, 0>> THEN st' = "crash" /\ b' = b ELSE b' = g /\ st' = st
                           ELSE b' = <<b[1], b[2] + 1>> /\ st' = st
                  [] sk = "stop" -> st' = "done" /\ UNCHANGED <<s, b>>
        /\ fresh' = 0
        /\ UNCHANGED <<cid, rt>>
Next == TauS \/ TauB \/ Sync
Spec == Init /\ [][Next]_vars

Bad == {"map-mismatch", "unmapped-op", "return-address-layout", "included-files", "position-marks", "loop-keyword-jumps"}
MapAgrees == st \notin Bad
Report == st \in Bad =>
  PrintT(<<"VIOL", cid, st, rt, s.pt.t, s.pt.n, b[1], b[2], IF b[1] > 0 THEN BOp(cid, b).off ELSE -1>>)
=============================================================================
