SPECIFICATION Spec
INVARIANT Report
INVARIANT Closed
PROPERTY PlacedMonotone
CHECK_DEADLOCK FALSE
