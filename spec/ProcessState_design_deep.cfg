SPECIFICATION Spec
CONSTANTS Mode = "design"
 Ids = {1, 2}
 Keys = {"k1", "k2"}
 MaxCalls = 4
 MaxSteps = 6
 AbortPossible = TRUE
 Deviations = {}
INVARIANT CacheTransparent
CHECK_DEADLOCK FALSE
