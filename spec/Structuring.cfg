SPECIFICATION Spec
INVARIANT Report
INVARIANT NoJumpStmt
INVARIANT EachOpOnce
INVARIANT IsText
INVARIANT InDomain
CHECK_DEADLOCK FALSE
