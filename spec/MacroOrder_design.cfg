SPECIFICATION Spec
CONSTANTS N = 4
 Deviations = {}
 UseCases = FALSE
INVARIANT DesignTopological
CHECK_DEADLOCK FALSE
