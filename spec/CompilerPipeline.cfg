SPECIFICATION Spec
INVARIANT Report
INVARIANT Refines
CHECK_DEADLOCK FALSE
