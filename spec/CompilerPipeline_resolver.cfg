SPECIFICATION Spec
CONSTANT Mode = "resolver"
INVARIANT Report
INVARIANT Refines
CHECK_DEADLOCK FALSE
