---------------------------- MODULE MC_CacheDesignPinned ----------------------------
EXTENDS Integers, FiniteSets
Ids == {1, 2, 3}
Keys == {1, 2, 3}
AbortPossible == TRUE
ClearBeforeSwitchPass == FALSE
VARIABLES
  \* @type: Int -> (Int -> Str);
  cache,
  \* @type: Int -> Bool;
  held,
  \* @type: Int -> Str;
  truth,
  \* @type: Int;
  cur,
  \* @type: Str;
  phase,
  \* @type: Str;
  due,
  \* @type: Bool;
  bad
INSTANCE CacheDesign
=============================================================================
