---------------------------- MODULE SourceMapOps ----------------------------
(***************************************************************************)
(* C14  Source maps survive storage and offset rewriting.                  *)
(*                                                                         *)
(* A source map is four tables; here as sets of records:                   *)
(*   ops    : [off, line, col]                                             *)
(*   macros : [off, file, macro, line, col, ci (<<>> | <<file,line,col>>), *)
(*             ra (-1 = none), pm (set of <<name, value>>)]                *)
(*   marks, mmarks : position marks (sequences - their order matters)      *)
(* The life of one map as a state machine, each step validated against the *)
(* recorded behaviour of the real class:                                   *)
(*   Store   serialise, read back: the reloaded map equals the original    *)
(*           (Python ==, recorded) and has identical tables; serialising   *)
(*           again gives the same text                                     *)
(*   Rewrite offsets through an injective partial map f (may drop ops, may *)
(*           be non-monotone): every entry moves to f[off]; every macro    *)
(*           return address moves to f[ra], or to f of the next old offset *)
(*           above ra that survives; only entries whose op is absent from  *)
(*           f disappear; nothing else changes.                            *)
(***************************************************************************)
EXTENDS Naturals, Integers, Sequences, FiniteSets, TLC, Json, IOUtils
Cases == JsonDeserialize(IOEnv.CASES_FILE)
VARIABLES cid, phase, st
vars == <<cid, phase, st>>

ToSet(seq) == {seq[i] : i \in 1..Len(seq)}
DomF(c) == {Cases[c].f[i][1] : i \in 1..Len(Cases[c].f)}
F(c, o) == LET i == CHOOSE i \in 1..Len(Cases[c].f) : Cases[c].f[i][1] = o IN Cases[c].f[i][2]
MinOf(S) == CHOOSE x \in S : \A y \in S : x <= y

NewRa(c, ra) ==
  IF ra = -1 THEN -1
  ELSE IF ra \in DomF(c) THEN F(c, ra)
  ELSE LET later == {o \in DomF(c) : o > ra} IN IF later = {} THEN ra ELSE F(c, MinOf(later))

\* the specified result of rewriting the original tables through f
RewOps(c) == {[off |-> F(c, e.off), line |-> e.line, col |-> e.col] : e \in {x \in ToSet(Cases[c].m.ops) : x.off \in DomF(c)}}
RewMacros(c) == {[off |-> F(c, e.off), file |-> e.file, macro |-> e.macro, line |-> e.line, col |-> e.col, ci |-> e.ci,
                  ra |-> NewRa(c, e.ra), pm |-> e.pm] : e \in {x \in ToSet(Cases[c].m.macros) : x.off \in DomF(c)}}

SameTables(a, b) == /\ ToSet(a.ops) = ToSet(b.ops) /\ Len(a.ops) = Len(b.ops)
                    /\ ToSet(a.macros) = ToSet(b.macros) /\ Len(a.macros) = Len(b.macros)
                    /\ a.marks = b.marks /\ a.mmarks = b.mmarks

Init == cid \in 1..Len(Cases) /\ phase = "built" /\ st = "ok"

Store == /\ phase = "built" /\ st = "ok"
         /\ phase' = "stored"
         /\ st' = IF Cases[cid].storeStatus # "ok" THEN "store-raised"
                  ELSE IF ~Cases[cid].eq THEN "reloaded-not-equal"
                  ELSE IF ~SameTables(Cases[cid].m, Cases[cid].reloaded) THEN "reloaded-differs"
                  ELSE IF Cases[cid].ser1 # Cases[cid].ser2 THEN "reserialised-differs"
                  ELSE "ok"
         /\ UNCHANGED cid
Rewrite == /\ phase = "stored" /\ st = "ok"
           /\ phase' = "rewritten"
           /\ st' = IF Cases[cid].rewStatus # "ok" THEN "rewrite-raised"
                    ELSE IF ToSet(Cases[cid].rew.ops) # RewOps(cid) \/ Len(Cases[cid].rew.ops) # Cardinality(RewOps(cid)) THEN "rewrite-ops"
                    ELSE IF {[e EXCEPT !.ra = 0] : e \in ToSet(Cases[cid].rew.macros)} # {[e EXCEPT !.ra = 0] : e \in RewMacros(cid)}
                            \/ Len(Cases[cid].rew.macros) # Cardinality(RewMacros(cid)) THEN "rewrite-macro-entries"
                    ELSE IF ToSet(Cases[cid].rew.macros) # RewMacros(cid) THEN "rewrite-return-address"
                    ELSE IF Cases[cid].rew.marks # Cases[cid].m.marks \/ Cases[cid].rew.mmarks # Cases[cid].m.mmarks THEN "rewrite-marks"
                    ELSE "ok"
           /\ UNCHANGED cid
Next == Store \/ Rewrite
Spec == Init /\ [][Next]_vars
Survives == st = "ok"
Report == st # "ok" => PrintT(<<"VIOL", cid, st>>)
=============================================================================
