---------------------------- MODULE SsbScriptRT ----------------------------
(***************************************************************************)
(* C07  SsbScript is a lossless spelling of SSB ops.                       *)
(*                                                                         *)
(* Each case carries a routine set `inp' (what a binary reader delivers)   *)
(* and what the real SsbScript decompiler + SsbScript compiler made of it  *)
(* (`out', or status "raised").  The specification walks both routine sets *)
(* op by op (one Walk step per op, like an assembler laying them out) and  *)
(* demands that they are the same routine set up to renumbering: same      *)
(* routines with the same kind / target / coroutine name, same ops in the  *)
(* same order with equal parameters, every jump parameter denoting the op  *)
(* at the same position.                                                   *)
(***************************************************************************)
EXTENDS Ssb, TLC, Json, IOUtils
Cases == JsonDeserialize(IOEnv.CASES_FILE)
VARIABLES cid, r, i, st
vars == <<cid, r, i, st>>

In(c)  == Cases[c].inp
Out(c) == Cases[c].out

Start(c) ==
  IF Cases[c].status # "ok" THEN "raised"
  ELSE IF ~SameInfos(Cases[c].infoIn, Cases[c].infoOut) THEN "tables"
  ELSE IF Len(In(c)) # Len(Out(c)) THEN "routines"
  ELSE "walk"

Init == /\ cid \in 1..Len(Cases) /\ r = 1 /\ i = 0 /\ st = Start(cid)

\* next op position in layout order, or <<0,0>> at the end
RECURSIVE NextPos(_, _, _)
NextPos(R, rr, ii) ==
  IF rr > Len(R) THEN <<0, 0>>
  ELSE IF ii < Len(R[rr]) THEN <<rr, ii + 1>>
  ELSE NextPos(R, rr + 1, 0)

Walk ==
  /\ st = "walk"
  /\ LET p == NextPos(In(cid), r, i) IN
     IF p = <<0, 0>>
     THEN /\ st' = IF \A rr \in 1..Len(In(cid)) : Len(In(cid)[rr]) = Len(Out(cid)[rr]) THEN "done" ELSE "length"
          /\ UNCHANGED <<r, i>>
     ELSE /\ r' = p[1] /\ i' = p[2]
          /\ st' = IF p[2] > Len(Out(cid)[p[1]]) THEN "length"
                   ELSE IF SameOp(In(cid), Out(cid), p[1], p[2]) THEN "walk" ELSE "mismatch"
  /\ UNCHANGED cid

Next == Walk
Spec == Init /\ [][Next]_vars

Bad == {"raised", "tables", "routines", "length", "mismatch"}
Lossless == st \notin Bad
\* reporter: always TRUE, prints one parseable line per violating case
Report == st \in Bad => PrintT(<<"VIOL", cid, st, r, i>>)
\* design-level cross-check: the step-wise walk and the closed formula agree
WalkAgrees == st = "done" => SameUpToRenumber(In(cid), Out(cid))
=============================================================================
