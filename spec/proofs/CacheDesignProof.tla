------------------------- MODULE CacheDesignProof -------------------------
EXTENDS CacheDesign, TLAPS

ASSUME ConstAssump == /\ 0 \notin Ids /\ Ids \subseteq Int /\ Keys \subseteq Int
                      /\ AbortPossible \in BOOLEAN /\ ClearBeforeSwitchPass = TRUE

LEMMA InitInv == Init => IndInv
  BY ConstAssump DEF Init, IndInv, TypeOK, EmptyBucket, Vals, Absent

LEMMA StepInv == IndInv /\ [Next]_vars => IndInv'
<1> SUFFICES ASSUME IndInv, [Next]_vars PROVE IndInv'
  OBVIOUS
<1>1. CASE Alloc
  BY <1>1, ConstAssump DEF Alloc, IndInv, TypeOK, EmptyBucket, Vals, Absent
<1>2. CASE Clear
  BY <1>2, ConstAssump DEF Clear, IndInv, TypeOK, EmptyBucket, Vals, Absent
<1>3. CASE \E k \in Keys : Find(k)
  BY <1>3, ConstAssump DEF Find, IndInv, TypeOK, EmptyBucket, Vals, Absent
<1>4. CASE NextPhase
  BY <1>4, ConstAssump DEF NextPhase, IndInv, TypeOK, EmptyBucket, Vals, Absent
<1>5. CASE Finish
  BY <1>5, ConstAssump DEF Finish, Release, Pinned, IndInv, TypeOK, EmptyBucket, Vals, Absent
<1>6. CASE Abort
  BY <1>6, ConstAssump DEF Abort, Release, Pinned, IndInv, TypeOK, EmptyBucket, Vals, Absent
<1>7. CASE UNCHANGED vars
  BY <1>7 DEF vars, IndInv, TypeOK
<1> QED BY <1>1, <1>2, <1>3, <1>4, <1>5, <1>6, <1>7 DEF Next

THEOREM Safety == Spec => []CacheTransparent
<1>1. IndInv => CacheTransparent
  BY DEF IndInv, CacheTransparent
<1> QED BY InitInv, StepInv, <1>1, PTL DEF Spec
=============================================================================
