------------------------------ MODULE PygLexer ------------------------------
(***************************************************************************)
(* C17  The highlighting lexer is total and loses no text.                 *)
(*                                                                         *)
(* Pygments' RegexLexer loop (position, state stack, first matching rule   *)
(* of the current state, #pop, and the fallback that emits an Error token  *)
(* for a character no rule matches) over the rule table of the             *)
(* ExplorerScript lexer, each rule transcribed as a match-length operator  *)
(* on sequences of code points.  Mode "design": TLC lexes every string of  *)
(* length <= MaxLen over an alphabet that drives every rule and checks     *)
(* Progress (some rule consumes >= 1 character at every position),         *)
(* Lossless (the token texts concatenate to the input) and NoError.        *)
(* Mode "cases": records [text, tokens, accepted] produced by the REAL     *)
(* lexer are judged: Lossless and NoError (for compiler-accepted sources)  *)
(* are the property; agreement of the real token stream with the model's   *)
(* (ModelAgrees) is reported separately as model drift, not as a verdict.  *)
(* keywords: import, coro, def, macro, for_actor, for_object, for_performer, alias, previous, not, if, elseif, else, forever, with, switch, debug, edit, variation, random, sector, menu2, menu, case, default, clear, reset, init, scn, dungeon_result, adventure_log, continue, break, break_loop, return, end, hold, jump, call, while, for, TRUE, FALSE, actor, object, performer, value, dungeon_mode *)
(***************************************************************************)
EXTENDS Naturals, Integers, Sequences, FiniteSets, TLC, Json, IOUtils
CONSTANTS Mode, MaxLen
Cases == IF Mode = "cases" THEN JsonDeserialize(IOEnv.CASES_FILE) ELSE <<>>

Keywords == {
   <<105,109,112,111,114,116>>,
   <<99,111,114,111>>,
   <<100,101,102>>,
   <<109,97,99,114,111>>,
   <<102,111,114,95,97,99,116,111,114>>,
   <<102,111,114,95,111,98,106,101,99,116>>,
   <<102,111,114,95,112,101,114,102,111,114,109,101,114>>,
   <<97,108,105,97,115>>,
   <<112,114,101,118,105,111,117,115>>,
   <<110,111,116>>,
   <<105,102>>,
   <<101,108,115,101,105,102>>,
   <<101,108,115,101>>,
   <<102,111,114,101,118,101,114>>,
   <<119,105,116,104>>,
   <<115,119,105,116,99,104>>,
   <<100,101,98,117,103>>,
   <<101,100,105,116>>,
   <<118,97,114,105,97,116,105,111,110>>,
   <<114,97,110,100,111,109>>,
   <<115,101,99,116,111,114>>,
   <<109,101,110,117,50>>,
   <<109,101,110,117>>,
   <<99,97,115,101>>,
   <<100,101,102,97,117,108,116>>,
   <<99,108,101,97,114>>,
   <<114,101,115,101,116>>,
   <<105,110,105,116>>,
   <<115,99,110>>,
   <<100,117,110,103,101,111,110,95,114,101,115,117,108,116>>,
   <<97,100,118,101,110,116,117,114,101,95,108,111,103>>,
   <<99,111,110,116,105,110,117,101>>,
   <<98,114,101,97,107>>,
   <<98,114,101,97,107,95,108,111,111,112>>,
   <<114,101,116,117,114,110>>,
   <<101,110,100>>,
   <<104,111,108,100>>,
   <<106,117,109,112>>,
   <<99,97,108,108>>,
   <<119,104,105,108,101>>,
   <<102,111,114>>,
   <<84,82,85,69>>,
   <<70,65,76,83,69>>,
   <<97,99,116,111,114>>,
   <<111,98,106,101,99,116>>,
   <<112,101,114,102,111,114,109,101,114>>,
   <<118,97,108,117,101>>,
   <<100,117,110,103,101,111,110,95,109,111,100,101>>}

NL == 10  DQ == 34  SQ == 39  SL == 47  ST == 42  DOLLAR == 36  AT == 64  PARA == 167
IsLetter(c) == (c >= 65 /\ c <= 90) \/ (c >= 97 /\ c <= 122) \/ c = 95
IsDigit(c) == c >= 48 /\ c <= 57
\* \w of Python's re (str patterns): letters, digits, underscore and the non-ASCII word characters used by the drivers
IsWord(c) == IsLetter(c) \/ IsDigit(c) \/ c \in {233, 26085, 26412}
IsIdCont(c) == IsLetter(c) \/ IsDigit(c)

StartsWith(t, p) == Len(t) >= Len(p) /\ SubSeq(t, 1, Len(p)) = p
IsOct(c) == c >= 48 /\ c <= 55
IsBin(c) == c \in {48, 49}
IsHex(c) == IsDigit(c) \/ (c >= 97 /\ c <= 102) \/ (c >= 65 /\ c <= 70)
InCls(c, cls) == CASE cls = "id" -> IsIdCont(c) [] cls = "oct" -> IsOct(c) [] cls = "bin" -> IsBin(c) [] cls = "hex" -> IsHex(c) [] cls = "dig" -> IsDigit(c)
RECURSIVE Run(_, _, _)
Run(t, i, cls) == IF i <= Len(t) /\ InCls(t[i], cls) THEN Run(t, i + 1, cls) ELSE i - 1     \* last index of the run starting at i (i-1 if empty)
IndexOfSub(t, sub, from) ==   \* least i >= from with t[i..] starting with sub, 0 if none
  LET S == {i \in from..(Len(t) - Len(sub) + 1) : SubSeq(t, i, i + Len(sub) - 1) = sub} IN
  IF S = {} THEN 0 ELSE CHOOSE i \in S : \A j \in S : i <= j

\* ---- match lengths of the root rules, in rule order; 0 = no match
MKeyword(t) ==
  LET ks == {k \in Keywords : StartsWith(t, k) /\ (Len(t) = Len(k) \/ ~IsWord(t[Len(k) + 1]))} IN
  IF ks = {} THEN 0 ELSE Len(CHOOSE k \in ks : \A j \in ks : Len(j) <= Len(k))
MBlockComment(t) == IF StartsWith(t, <<SL, ST>>) THEN (LET e == IndexOfSub(t, <<ST, SL>>, 3) IN IF e = 0 THEN 0 ELSE e + 1) ELSE 0
MLineComment(t) == IF StartsWith(t, <<SL, SL>>) THEN IndexOfSub(t, <<NL>>, 3) ELSE 0
MSigilIdent(t, s) == IF Len(t) >= 2 /\ t[1] = s /\ IsLetter(t[2]) THEN Run(t, 3, "id") ELSE 0
MIdent(t) == IF Len(t) >= 1 /\ IsLetter(t[1]) THEN Run(t, 2, "id") ELSE 0
MDot5(t) == IF Len(t) >= 2 /\ t[2] = 53 THEN 2 ELSE 0                 \* the rule is written `.5`: ANY character followed by 5
MOct(t) == IF Len(t) >= 2 /\ t[1] = 48 /\ IsOct(t[2]) THEN (LET e == Run(t, 2, "oct") IN IF e < Len(t) /\ t[e + 1] = 106 THEN e + 1 ELSE e) ELSE 0
MBin(t) == IF Len(t) >= 3 /\ t[1] = 48 /\ t[2] \in {98, 66} /\ IsBin(t[3]) THEN Run(t, 3, "bin") ELSE 0
MHex(t) == IF Len(t) >= 3 /\ t[1] = 48 /\ t[2] \in {120, 88} /\ IsHex(t[3]) THEN Run(t, 3, "hex") ELSE 0
MInt(t) == IF Len(t) >= 1 /\ IsDigit(t[1]) THEN Run(t, 1, "dig") ELSE 0

Tok(ty, n, push, pop) == [ty |-> ty, n |-> n, push |-> push, pop |-> pop]
NoTok == Tok("none", 0, "", FALSE)
First(cands) == IF \E i \in 1..Len(cands) : cands[i].n > 0
                THEN cands[CHOOSE i \in 1..Len(cands) : cands[i].n > 0 /\ \A j \in 1..(i - 1) : cands[j].n = 0] ELSE NoTok

RootRule(t) == First(<<
   Tok("Name.Builtin", MKeyword(t), "", FALSE), Tok("Comment.Multiline", MBlockComment(t), "", FALSE), Tok("Comment.Single", MLineComment(t), "", FALSE),
   Tok("Name.Variable", MSigilIdent(t, DOLLAR), "", FALSE), Tok("Name.Label", MSigilIdent(t, PARA), "", FALSE), Tok("Name.Label", MSigilIdent(t, AT), "", FALSE),
   Tok("Name", MIdent(t), "", FALSE), Tok("Literal.Number.Float", MDot5(t), "", FALSE), Tok("Literal.Number.Oct", MOct(t), "", FALSE), Tok("Literal.Number.Bin", MBin(t), "", FALSE),
   Tok("Literal.Number.Hex", MHex(t), "", FALSE), Tok("Literal.Number.Integer", MInt(t), "", FALSE),
   Tok("Literal.String", IF StartsWith(t, <<DQ, DQ, DQ>>) THEN 3 ELSE 0, "mdq", FALSE), Tok("Literal.String", IF StartsWith(t, <<SQ, SQ, SQ>>) THEN 3 ELSE 0, "msq", FALSE),
   Tok("Literal.String", IF StartsWith(t, <<DQ>>) THEN 1 ELSE 0, "dq", FALSE), Tok("Literal.String", IF StartsWith(t, <<SQ>>) THEN 1 ELSE 0, "sq", FALSE),
   Tok("Text", IF Len(t) >= 1 THEN 1 ELSE 0, "", FALSE)>>)
RECURSIVE RunNot(_, _, _)
RunNot(t, i, q) == IF i <= Len(t) /\ t[i] # q THEN RunNot(t, i + 1, q) ELSE i - 1
StrRule(t, q) == First(<<Tok("Literal.String", RunNot(t, 1, q), "", FALSE), Tok("Literal.String", IF StartsWith(t, <<q>>) THEN 1 ELSE 0, "", TRUE)>>)
MultiRule(t, q) == First(<<Tok("Literal.String", IF StartsWith(t, <<q, q, q>>) THEN 3 ELSE 0, "", TRUE), Tok("Literal.String", IF StartsWith(t, <<q>>) THEN 1 ELSE 0, "", FALSE),
                           Tok("Literal.String", RunNot(t, 1, q), "", FALSE), Tok("Literal.String", IF StartsWith(t, <<q>>) THEN 1 ELSE 0, "", TRUE)>>)
Rule(state, t) == CASE state = "root" -> RootRule(t) [] state = "dq" -> StrRule(t, DQ) [] state = "sq" -> StrRule(t, SQ)
                    [] state = "mdq" -> MultiRule(t, DQ) [] state = "msq" -> MultiRule(t, SQ)

\* ---- the RegexLexer loop
RECURSIVE LexFrom(_, _, _)
LexFrom(text, pos, stack) ==
  IF pos > Len(text) THEN <<>>
  ELSE LET t == SubSeq(text, pos, Len(text))
           r == Rule(stack[Len(stack)], t) IN
       IF r.n = 0
       THEN (IF text[pos] = NL THEN <<[ty |-> "Text", s |-> <<NL>>]>> \o LexFrom(text, pos + 1, <<"root">>)     \* Pygments: reset on newline
             ELSE <<[ty |-> "Error", s |-> <<text[pos]>>]>> \o LexFrom(text, pos + 1, stack))
       ELSE <<[ty |-> r.ty, s |-> SubSeq(t, 1, r.n)]>> \o
            LexFrom(text, pos + r.n, IF r.pop THEN (IF Len(stack) > 1 THEN SubSeq(stack, 1, Len(stack) - 1) ELSE stack)
                                      ELSE IF r.push # "" THEN Append(stack, r.push) ELSE stack)
Lex(text) == LexFrom(text, 1, <<"root">>)
RECURSIVE Concat(_)
Concat(toks) == IF toks = <<>> THEN <<>> ELSE toks[1].s \o Concat(Tail(toks))
HasError(toks) == \E i \in 1..Len(toks) : toks[i].ty = "Error"
EmptyTok(toks) == \E i \in 1..Len(toks) : toks[i].s = <<>>

\* alphabet that drives every rule: letters i f a b x j, digits 0 1 5 8, . $ @ section-sign " ' / * newline blank
Sigma == {105, 102, 97, 98, 120, 106, 48, 49, 53, 56, 46, 36, 64, 167, 34, 39, 47, 42, 10, 32}
DesignTexts == UNION {[1..n -> Sigma] : n \in 0..MaxLen}

VARIABLES cid, dv, verdict, drift, k, pos
vars == <<cid, dv, verdict, drift, k, pos>>
DesignVerdict(v) == LET toks == Lex(v) IN
   IF EmptyTok(toks) THEN "no-progress" ELSE IF Concat(toks) # v THEN "lossy" ELSE IF HasError(toks) THEN "error-token" ELSE "ok"
Init == /\ k = 0 /\ pos = 0
        /\ IF Mode = "design"
           THEN cid = 0 /\ dv \in DesignTexts /\ verdict = DesignVerdict(dv) /\ drift = FALSE
           ELSE /\ cid \in 1..Len(Cases) /\ dv = <<>>
                /\ verdict = IF Cases[cid].status # "ok" THEN "lexer-raised-or-hung" ELSE "run"
                /\ drift = (Cases[cid].status = "ok" /\ Cases[cid].raw /\ Len(Cases[cid].text) <= 120 /\ Lex(Cases[cid].text) # Cases[cid].tokens)
\* the recorded token stream of the real lexer is consumed token by token against the expected text
Consume == /\ Mode = "cases" /\ verdict = "run"
           /\ LET c == Cases[cid] IN
              IF k = Len(c.tokens)
              THEN verdict' = (IF pos = Len(c.expected) THEN "ok" ELSE "lossy") /\ UNCHANGED <<k, pos>>
              ELSE LET t == c.tokens[k + 1] IN
                   /\ k' = k + 1 /\ pos' = pos + Len(t.s)
                   /\ verdict' = IF pos + Len(t.s) > Len(c.expected) \/ SubSeq(c.expected, pos + 1, pos + Len(t.s)) # t.s THEN "lossy"
                                 ELSE IF c.accepted /\ t.ty = "Error" THEN "error-token-on-accepted-source" ELSE "run"
           /\ UNCHANGED <<cid, dv, drift>>
Next == Consume
Spec == Init /\ [][Next]_vars
TotalAndLossless == verdict \in {"ok", "run"}
Report == verdict \notin {"ok", "run"} => PrintT(<<"VIOL", cid, verdict>>)
DriftReport == (drift /\ k = 0) => PrintT(<<"DRIFT", cid>>)
=============================================================================
