------------------------------ MODULE ByteEquiv ------------------------------
(***************************************************************************)
(* Lock-step product of two SSB routine sets on the SSB machine            *)
(* (C02: input vs recompiled decompiler output; also the relayout layer).  *)
(*                                                                         *)
(* A = the routine set a binary reader delivered (must be WellFormed: this *)
(* is the domain of C02/C06/C09 and is re-checked here, so an out-of-domain*)
(* generator output is reported as "illformed", never as a verdict).       *)
(* B = what the code under test made of it.  Jump is silent on both sides. *)
(* A silent cycle on the B side while A waits at an observable step is a   *)
(* divergence ("diverge"): B would never perform the operation A performs. *)
(***************************************************************************)
EXTENDS Ssb, TLC, Json, IOUtils
Cases == JsonDeserialize(IOEnv.CASES_FILE)
VARIABLES cid, rt, a, b, tb, st
vars == <<cid, rt, a, b, tb, st>>

A(c) == Cases[c].a
B(c) == Cases[c].b

OffOp == [off |-> -1, op |-> "<off>", ps |-> <<>>, tgt |-> -1, pseudo |-> FALSE]
OpAt(R, p) == IF p[2] <= Len(R[p[1]]) THEN R[p[1]][p[2]] ELSE OffOp
\* an op directly after a context op (lives/object/performer) runs in that context and never ends the routine
AfterCtx(R, p) == p[2] > 1 /\ p[2] - 1 <= Len(R[p[1]]) /\ R[p[1]][p[2] - 1].op \in CtxOps
KindAt(R, p) == LET o == OpAt(R, p) IN
  IF o.op = "<off>" THEN "off"
  ELSE LET k == Kind(o.op) IN
       IF k \in {"ctx", "plain"} THEN "op"
       ELSE IF k = "stop" /\ AfterCtx(R, p) THEN "op" ELSE k
LblAt(R, p) == LET o == OpAt(R, p) IN [op |-> o.op, ps |-> o.ps]
Goto(R, off) == LET ps == PosOf(R, off) IN IF ps = {} THEN <<0, 0>> ELSE CHOOSE p \in ps : TRUE

\* ---- the domain predicate of C02 / C06 / C09
RECURSIVE JumpChainEnds(_, _, _)
JumpChainEnds(R, p, n) ==   \* following Jump ops from p reaches a non-Jump op within n steps
  IF OpAt(R, p).op # "Jump" THEN TRUE
  ELSE IF n = 0 THEN FALSE
  ELSE LET g == Goto(R, OpAt(R, p).tgt) IN g # <<0, 0>> /\ JumpChainEnds(R, g, n - 1)
RECURSIVE FlatFrom(_, _)
FlatFrom(R, r) == IF r > Len(R) THEN <<>> ELSE R[r] \o FlatFrom(R, r + 1)      \* all ops in layout order
WellFormed(R) ==
  LET F == FlatFrom(R, 1)
      offs == {F[k].off : k \in 1..Len(F)} IN
  /\ Len(F) > 0
  /\ \A k \in 1..(Len(F) - 1) : F[k].off < F[k + 1].off                              \* offsets increase through the file
  /\ \A k \in 1..Len(F) : F[k].op \in JumpCarrying => F[k].tgt \in offs                \* targets are ops of the set
  /\ \A p \in AllPos(R) : R[p[1]][p[2]].op = "Jump" => JumpChainEnds(R, p, Len(F))     \* no cycle of Jump ops only
  /\ \A p \in AllPos(R) : KindAt(R, p) \in {"op", "test"} => p[2] < Len(R[p[1]])       \* no path runs off a routine

Init ==
  /\ cid \in 1..Len(Cases)
  /\ \/ /\ rt = 0 /\ a = <<0, 0>> /\ b = <<0, 0>> /\ tb = 0
        /\ st = IF ~WellFormed(A(cid)) THEN "illformed"
                ELSE IF Cases[cid].status # "ok" THEN "rejected"
                ELSE IF ~SameInfos(Cases[cid].infoA, Cases[cid].infoB) \/ Len(A(cid)) # Len(B(cid)) THEN "tables"
                ELSE "done"
     \/ /\ Cases[cid].status = "ok" /\ Len(A(cid)) = Len(B(cid))
        /\ rt \in {r \in 1..Len(A(cid)) : Len(A(cid)[r]) > 0}
        /\ a = <<rt, 1>> /\ b = <<rt, 1>> /\ tb = 0 /\ st = "run"

Step(R, p, taken) ==   \* successor position of an observable step, <<0,0>> = dangling target
  IF KindAt(R, p) = "test" /\ taken THEN Goto(R, OpAt(R, p).tgt) ELSE <<p[1], p[2] + 1>>

TauA == /\ st = "run" /\ KindAt(A(cid), a) = "jump"
        /\ a' = Goto(A(cid), OpAt(A(cid), a).tgt)
        /\ UNCHANGED <<cid, rt, b, tb, st>>
TauB == /\ st = "run" /\ KindAt(A(cid), a) # "jump" /\ KindAt(B(cid), b) = "jump"
        /\ LET g == Goto(B(cid), OpAt(B(cid), b).tgt) IN
           IF g = <<0, 0>> THEN st' = "crash" /\ UNCHANGED <<b, tb>>
           ELSE IF tb > NumOps(B(cid)) THEN st' = "diverge" /\ UNCHANGED <<b, tb>>
           ELSE b' = g /\ tb' = tb + 1 /\ st' = st
        /\ UNCHANGED <<cid, rt, a>>
Sync == /\ st = "run" /\ KindAt(A(cid), a) # "jump" /\ KindAt(B(cid), b) # "jump"
        /\ LET ka == KindAt(A(cid), a)  kb == KindAt(B(cid), b) IN
           IF ka = "off" THEN st' = "illformed" /\ UNCHANGED <<a, b, tb>>
           ELSE IF ka # kb \/ LblAt(A(cid), a) # LblAt(B(cid), b) THEN st' = "mismatch" /\ UNCHANGED <<a, b, tb>>
           ELSE IF ka = "stop" THEN st' = "done" /\ UNCHANGED <<a, b, tb>>
           ELSE \E taken \in BOOLEAN :
                  /\ (ka # "test" => taken = FALSE)
                  /\ a' = Step(A(cid), a, taken)
                  /\ LET nb == Step(B(cid), b, taken) IN
                     IF nb = <<0, 0>> THEN st' = "crash" /\ b' = b ELSE b' = nb /\ st' = st
                  /\ tb' = 0
        /\ UNCHANGED <<cid, rt>>

SafeOp(R, p) == IF p[1] \in 1..Len(R) THEN OpAt(R, p).op ELSE "-"
Next == TauA \/ TauB \/ Sync
Spec == Init /\ [][Next]_vars

Bad == {"mismatch", "crash", "diverge", "tables", "rejected"}
Agree == st \notin Bad
InDomain == st # "illformed"
Report == st \in (Bad \cup {"illformed"}) =>
  PrintT(<<"VIOL", cid, st, rt, a[1], a[2], b[1], b[2], SafeOp(A(cid), a), SafeOp(B(cid), b)>>)
=============================================================================
