SPECIFICATION Spec
INVARIANT Report
INVARIANT Lossless
INVARIANT WalkAgrees
CHECK_DEADLOCK FALSE
