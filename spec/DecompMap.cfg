SPECIFICATION Spec
INVARIANT Report
INVARIANT PointsAtStatement
CHECK_DEADLOCK FALSE
