SPECIFICATION Spec
CONSTANTS Mode = "design"
 MaxLen = 5
INVARIANT DesignClassified
CHECK_DEADLOCK FALSE
