SPECIFICATION Spec
INVARIANT Report
INVARIANT Accepted
CHECK_DEADLOCK FALSE
