------------------------------ MODULE DecompMap ------------------------------
(***************************************************************************)
(* C09  Decompile-time source map points at the statement printed for each *)
(* op.                                                                     *)
(*                                                                         *)
(* The decompiler's writer is a machine that emits statements line by line *)
(* and, before each statement that stands for an input op, records         *)
(* (offset -> line, column).  Each case carries the input routine set, the *)
(* recorded map joined with the word found in the emitted text at the      *)
(* recorded position, and - for ops that can be identified uniquely by     *)
(* their label - the line on which the real compiler's source map places   *)
(* the corresponding op when the emitted text is compiled again.           *)
(* The checker walks the entries (one Visit step per entry) and then the   *)
(* ops (Cover) and the line comparison (Agree).                            *)
(***************************************************************************)
EXTENDS Ssb, TLC, Json, IOUtils
Cases == JsonDeserialize(IOEnv.CASES_FILE)
VARIABLES cid, phase, k, st
vars == <<cid, phase, k, st>>

R(c) == Cases[c].inp
E(c) == Cases[c].entries          \* [off, line, col, word, indentCol, sameLineStart]
OpAtOff(c, off) == LET p == CHOOSE p \in PosOf(R(c), off) : TRUE IN R(c)[p[1]][p[2]]
NextOpName(c, off) == LET p == CHOOSE p \in PosOf(R(c), off) : TRUE IN
                      IF p[2] < Len(R(c)[p[1]]) THEN R(c)[p[1]][p[2] + 1].op ELSE ""
SwitchLike == {"Switch", "SwitchScenario", "SwitchRandom", "SwitchSector", "SwitchDungeonMode", "SwitchScenarioLevel", "ProcessSpecial",
               "message_Menu", "message_SwitchMenu", "message_SwitchMenu2", "main_EnterAdventure", "main_EnterRescueUser",
               "main_EnterTraining", "main_EnterTraining2"}
Tok(t) == t     \* parameter tokens are compared with the first word via FirstWord (computed from the token by the harness)

\* the op a Jump leads to, through further Jump ops (a Jump that is not printed as a statement of its own - the text simply continues
\* with its target - keeps its entry: it is then where the statement of that target begins)
RECURSIVE ResolveJump(_, _, _)
ResolveJump(c, off, n) ==
  IF PosOf(R(c), off) = {} \/ n = 0 THEN off
  ELSE LET o == OpAtOff(c, off) IN IF o.op = "Jump" /\ o.tgt # -1 THEN ResolveJump(c, o.tgt, n - 1) ELSE off
\* the leading word the statement printed for op o must begin with (fpw = first word of o's first parameter, "?" = not known)
RECURSIVE WordOk(_, _, _, _)
WordOk(c, o, w, fpw) ==
  CASE o.op = "Return" -> w = "return" [] o.op = "End" -> w = "end" [] o.op = "Hold" -> w = "hold"
    [] o.op = "Jump" -> \/ w \in {"jump", "break", "continue", "break_loop", "@label"}   \* printed, or a jump to the directly following label
                        \/ LET t == ResolveJump(c, o.off, NumOps(R(c))) IN
                           t # o.off /\ PosOf(R(c), t) # {} /\ OpAtOff(c, t).op # "Jump" /\ WordOk(c, OpAtOff(c, t), w, "?")
    [] o.op = "Call" -> w = "call"
    [] o.op \in BranchOps -> w \in {"if", "elseif"}
    [] o.op \in CaseOps -> w = "case"
    [] o.op \in SwitchLike -> w = "switch"
    [] o.op \in {"message_SwitchTalk", "message_SwitchMonologue"} -> w = o.op
    [] o.op = "CaseText" -> w = "case" [] o.op = "DefaultText" -> w = "default"
    [] o.op \in CtxOps -> w = "with" \/ w = NextOpName(c, o.off)
    [] o.op \in {"flag_Clear"} -> w = "clear" [] o.op = "flag_Initial" -> w = "init"
    [] o.op \in {"flag_ResetDungeonResult", "flag_ResetScenario"} -> w = "reset"
    [] o.op = "flag_SetAdventureLog" -> w = "adventure_log" [] o.op = "flag_SetDungeonMode" -> w = "dungeon_mode"
    [] o.op = "flag_SetPerformance" -> w = "$PERFORMANCE_PROGRESS_LIST"
    [] o.op \in {"flag_Set", "flag_CalcValue", "flag_CalcVariable", "flag_CalcBit", "flag_SetScenario"} -> fpw = "?" \/ w = fpw
    [] OTHER -> w = o.op
SurfaceOk(c, e) ==
  LET o == OpAtOff(c, e.off) IN
  IF Cases[c].plain THEN e.word = o.op           \* SsbScript (also the fallback output): every op is spelt OpCode(...)
  ELSE WordOk(c, o, e.word, e.firstParamWord)

\* ops that are printed as a statement of their own whenever they are reachable
OwnStatement(o) == o.op \notin (BranchOps \cup {"Jump"})
RECURSIVE ReachFrom(_, _, _)
Succs(c, p) ==
  LET o == R(c)[p[1]][p[2]]
      nxt == IF p[2] < Len(R(c)[p[1]]) THEN {<<p[1], p[2] + 1>>} ELSE {}
      tg == IF o.tgt # -1 THEN PosOf(R(c), o.tgt) ELSE {}
      afterCtx == p[2] > 1 /\ R(c)[p[1]][p[2] - 1].op \in CtxOps IN
  IF o.op = "Jump" THEN tg
  ELSE IF o.op \in StopOps /\ ~afterCtx THEN {}
  ELSE IF o.op \in TestOps THEN (IF o.op = "Call" THEN tg ELSE tg \cup nxt)     \* the decompiler follows a Call like a jump (C02 finding)
  ELSE nxt
ReachFrom(c, frontier, seen) ==
  LET new == (UNION {Succs(c, p) : p \in frontier}) \ seen IN
  IF new = {} THEN seen ELSE ReachFrom(c, new, seen \cup new)
Reachable(c) == LET starts == {<<r, 1>> : r \in {x \in 1..Len(R(c)) : Len(R(c)[x]) > 0}} IN ReachFrom(c, starts, starts)

Init == cid \in 1..Len(Cases) /\ phase = "visit" /\ k = 0 /\ st = "ok"

Visit == /\ phase = "visit" /\ st = "ok"
         /\ IF k = Len(E(cid)) THEN phase' = "cover" /\ UNCHANGED <<k, st>>
            ELSE LET e == E(cid)[k + 1] IN
                 /\ k' = k + 1 /\ phase' = phase
                 /\ st' = IF PosOf(R(cid), e.off) = {} THEN "key-is-no-input-op"
                          ELSE IF e.word = "<outside>" THEN "position-outside-text"
                          ELSE IF ~SurfaceOk(cid, e) THEN "not-at-statement-start"
                          ELSE IF ~e.atStart THEN "column-not-at-statement-start"
                          ELSE "ok"
         /\ UNCHANGED cid
Cover == /\ phase = "cover" /\ st = "ok"
         /\ phase' = "agree"
         /\ st' = IF \A p \in Reachable(cid) : OwnStatement(R(cid)[p[1]][p[2]]) =>
                        \E i \in 1..Len(E(cid)) : E(cid)[i].off = R(cid)[p[1]][p[2]].off
                  THEN "ok" ELSE "printed-op-without-entry"
         /\ UNCHANGED <<cid, k>>
Agree == /\ phase = "agree" /\ st = "ok"
         /\ phase' = "done"
         /\ st' = IF \A i \in 1..Len(Cases[cid].matches) :
                        LET m == Cases[cid].matches[i] IN
                        \A j \in 1..Len(E(cid)) : E(cid)[j].off = m.off => E(cid)[j].line = m.reline
                  THEN "ok" ELSE "recompiled-op-on-other-line"
         /\ UNCHANGED <<cid, k>>
Next == Visit \/ Cover \/ Agree
Spec == Init /\ [][Next]_vars
PointsAtStatement == st = "ok"
Report == st # "ok" => PrintT(<<"VIOL", cid, st, k>>)
=============================================================================
