SPECIFICATION Spec
INVARIANT Report
INVARIANT Agree
INVARIANT InDomain
CHECK_DEADLOCK FALSE
