------------------------------- MODULE Imports -------------------------------
(***************************************************************************)
(* C05 (layout part)  Import resolution over an abstract file system, as   *)
(* docs/language_spec.rst "Imports / Includes" gives it:                   *)
(*   ./x ../x  relative to the directory of the importing file             *)
(*   /x        absolute                                                    *)
(*   other     relative to the lookup paths, in their given order, first   *)
(*             existing file wins (a relative lookup path is itself taken  *)
(*             relative to the importing file's directory)                 *)
(* A path is a sequence of segment strings from the (sandbox) root.        *)
(* Each case records which candidate file the real compiler actually read  *)
(* (every candidate defines the probe macro with its own marker op).       *)
(***************************************************************************)
EXTENDS Naturals, Sequences, FiniteSets, TLC, Json, IOUtils
Cases == JsonDeserialize(IOEnv.CASES_FILE)
VARIABLES cid, step, cur, st
vars == <<cid, step, cur, st>>

RECURSIVE Norm(_, _)
\* apply segments to a directory path: "." stays, ".." pops, name pushes
Norm(dir, segs) ==
  IF segs = <<>> THEN dir
  ELSE LET s == Head(segs) IN
       IF s = "." THEN Norm(dir, Tail(segs))
       ELSE IF s = ".." THEN Norm(IF dir = <<>> \/ dir[Len(dir)] = "<up>" THEN Append(dir, "<up>")   \* leaves the modelled tree
                                  ELSE SubSeq(dir, 1, Len(dir) - 1), Tail(segs))
       ELSE Norm(Append(dir, s), Tail(segs))

Files(c) == {Cases[c].files[i] : i \in 1..Len(Cases[c].files)}
Exists(c, p) == p \in Files(c)

\* candidates in the order the specification prescribes
Candidates(c, dir, imp) ==
  IF imp.kind = "rel" THEN <<Norm(dir, imp.segs)>>
  ELSE IF imp.kind = "abs" THEN <<Norm(<<>>, imp.segs)>>
  ELSE [i \in 1..Len(Cases[c].lookups) |->
          LET lp == Cases[c].lookups[i] IN
          Norm(IF lp.abs THEN Norm(<<>>, lp.segs) ELSE Norm(dir, lp.segs), imp.segs)]

RECURSIVE FirstExisting(_, _, _)
FirstExisting(c, cands, i) ==
  IF i > Len(cands) THEN <<"<missing>">>
  ELSE IF Exists(c, cands[i]) THEN cands[i] ELSE FirstExisting(c, cands, i + 1)

\* The chain of imports: the main file imports chain[1], the file found imports chain[2], ...
\* One Resolve step per import, like the compiler recursing into the imported file.
Init == /\ cid \in 1..Len(Cases) /\ step = 0 /\ cur = Cases[cid].main /\ st = "run"

Resolve ==
  /\ st = "run" /\ step < Len(Cases[cid].chain)
  /\ LET imp == Cases[cid].chain[step + 1]
         dir == SubSeq(cur, 1, Len(cur) - 1)
         found == FirstExisting(cid, Candidates(cid, dir, imp), 1) IN
     /\ cur' = found
     /\ st' = IF found = <<"<missing>">> THEN "missing" ELSE "run"
     /\ step' = step + 1
  /\ UNCHANGED cid

Done ==
  /\ st = "run" /\ step = Len(Cases[cid].chain)
  /\ st' = IF Cases[cid].status = "ok" /\ Cases[cid].chosen = cur THEN "agree"
           ELSE "disagree"
  /\ UNCHANGED <<cid, step, cur>>

Missing ==
  /\ st = "missing"
  /\ st' = IF Cases[cid].status = "SsbCompilerError" THEN "agree" ELSE "disagree"
  /\ UNCHANGED <<cid, step, cur>>

Next == Resolve \/ Done \/ Missing
Spec == Init /\ [][Next]_vars
ResolvesAsSpecified == st # "disagree"
Report == st = "disagree" => PrintT(<<"VIOL", cid, "import-resolution", step>>)
=============================================================================
