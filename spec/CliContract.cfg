SPECIFICATION Spec
INVARIANT Report
INVARIANT Contract
CHECK_DEADLOCK FALSE
