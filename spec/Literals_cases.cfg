SPECIFICATION Spec
CONSTANTS Mode = "cases"
 MaxLen = 0
INVARIANT Report
INVARIANT RoundTrips
CHECK_DEADLOCK FALSE
