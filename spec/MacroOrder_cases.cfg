SPECIFICATION Spec
CONSTANTS N = 1
 Deviations = {}
 UseCases = TRUE
INVARIANT Report
INVARIANT Compiles
CHECK_DEADLOCK FALSE
