SPECIFICATION Spec
CONSTANTS Mode = "cases"
 MaxLen = 0
INVARIANT Report
INVARIANT DriftReport
INVARIANT TotalAndLossless
CHECK_DEADLOCK FALSE
