------------------------------ MODULE Literals ------------------------------
(***************************************************************************)
(* C04  Every parameter value survives being printed and parsed again; and *)
(* every literal spelling parses to the value the specification gives.     *)
(*                                                                         *)
(* Text is Seq(Nat) of code points.  This module contains                  *)
(*  - the SPECIFIED readers, written from docs/language_spec.rst: single-  *)
(*    line strings (escapes \n \' \"), multi-line strings (the four dedent *)
(*    rules), integers in four bases, fixed-point decimals, position-mark  *)
(*    coordinates;                                                         *)
(*  - PrintModel, the choice function of the decompilers' string printer   *)
(*    (single-line / triple-quoted primary / secondary / escaped fallback),*)
(*    which is needed only to NAME the two known design defects: a value   *)
(*    the printer prints exactly as the model says, and that the specified *)
(*    reader cannot read back, is a known finding of the design; every     *)
(*    other failed round trip is new.                                      *)
(* Cases come from the real printers / compilers.                          *)
(***************************************************************************)
EXTENDS Naturals, Integers, Sequences, FiniteSets, TLC, Json, IOUtils
Cases == JsonDeserialize(IOEnv.CASES_FILE)

SP == 32  NL == 10  SQ == 39  DQ == 34  BS == 92  CN == 110  DOT == 46  MINUS == 45  ZERO == 48

Has(s, c) == \E i \in 1..Len(s) : s[i] = c
HasSub(s, sub) == \E i \in 1..(Len(s) - Len(sub) + 1) : SubSeq(s, i, i + Len(sub) - 1) = sub
Rep(n, c) == [i \in 1..n |-> c]

RECURSIVE SplitOn(_, _)
SplitOn(s, c) ==   \* like str.split(c): always >= 1 piece
  IF ~Has(s, c) THEN <<s>>
  ELSE LET i == CHOOSE i \in 1..Len(s) : s[i] = c /\ \A j \in 1..(i - 1) : s[j] # c
       IN <<SubSeq(s, 1, i - 1)>> \o SplitOn(SubSeq(s, i + 1, Len(s)), c)
RECURSIVE JoinWith(_, _)
JoinWith(ps, c) == IF Len(ps) = 0 THEN <<>> ELSE IF Len(ps) = 1 THEN ps[1] ELSE ps[1] \o <<c>> \o JoinWith(Tail(ps), c)
LeadSp(l) == IF \A i \in 1..Len(l) : l[i] = SP THEN Len(l)
             ELSE (CHOOSE i \in 1..Len(l) : l[i] # SP /\ \A j \in 1..(i - 1) : l[j] = SP) - 1
MinOf(S) == CHOOSE x \in S : \A y \in S : x <= y
RECURSIVE Replace(_, _, _)
Replace(s, a, r) ==
  IF Len(s) < Len(a) THEN s
  ELSE IF SubSeq(s, 1, Len(a)) = a THEN r \o Replace(SubSeq(s, Len(a) + 1, Len(s)), a, r)
  ELSE <<s[1]>> \o Replace(Tail(s), a, r)

\* ------------------------------------------------------------------ specified string readers
\* single-line body (between the quotes): \n is a newline, \' and \" are the quotes, anything else is kept
RECURSIVE ReadSingleBody(_)
ReadSingleBody(b) ==
  IF b = <<>> THEN <<>>
  ELSE IF b[1] = BS /\ Len(b) >= 2
       THEN (IF b[2] = CN THEN <<NL>> \o ReadSingleBody(SubSeq(b, 3, Len(b)))
             ELSE IF b[2] \in {SQ, DQ} THEN <<b[2]>> \o ReadSingleBody(SubSeq(b, 3, Len(b)))
             ELSE <<b[1], b[2]>> \o ReadSingleBody(SubSeq(b, 3, Len(b))))
       ELSE <<b[1]>> \o ReadSingleBody(Tail(b))

\* multi-line body (between the triple quotes), the four documented rules:
\*  1 the indentation of the first line is preserved; 2 an indentation-only last line is removed;
\*  3 all other lines (incl. a non-blank last line) are dedented by their least indentation;
\*  4 an empty first line is removed.
\* Lines are terminated, not separated, by newlines: a body that ends in a newline has no further (empty) line.
Lines(body) == IF body = <<>> THEN <<<<>>>>
               ELSE LET p == SplitOn(body, NL) IN IF p[Len(p)] = <<>> /\ Len(p) > 1 THEN SubSeq(p, 1, Len(p) - 1) ELSE p
ReadMultiBody(body) ==
  LET all == Lines(body)
      first == all[1]
      rest0 == Tail(all)
      rest1 == IF Len(rest0) > 0 /\ LeadSp(rest0[Len(rest0)]) = Len(rest0[Len(rest0)])
               THEN SubSeq(rest0, 1, Len(rest0) - 1) ELSE rest0
      mn == IF Len(rest1) = 0 THEN 0 ELSE MinOf({LeadSp(rest1[i]) : i \in 1..Len(rest1)})
      rest == [i \in 1..Len(rest1) |-> SubSeq(rest1[i], mn + 1, Len(rest1[i]))]
  IN IF first = <<>> THEN JoinWith(rest, NL) ELSE JoinWith(<<first>> \o rest, NL)

TSQ == <<SQ, SQ, SQ>>  TDQ == <<DQ, DQ, DQ>>
IsMultiLit(l) == Len(l) >= 6 /\ (SubSeq(l, 1, 3) = TSQ \/ SubSeq(l, 1, 3) = TDQ)
\* a literal including its quotes
ReadLit(l) == IF IsMultiLit(l) THEN ReadMultiBody(SubSeq(l, 4, Len(l) - 3)) ELSE ReadSingleBody(SubSeq(l, 2, Len(l) - 1))

\* lexical acceptance (SsbCommon.g4): single-line: every backslash escapes the next character, no raw quote of
\* its own kind, no raw newline; multi-line: the body does not contain the delimiter
RECURSIVE LexOkSingle(_, _)
LexOkSingle(b, q) == IF b = <<>> THEN TRUE
                     ELSE IF b[1] = BS THEN Len(b) >= 2 /\ b[2] # NL /\ LexOkSingle(SubSeq(b, 3, Len(b)), q)
                     ELSE b[1] \notin {q, NL} /\ LexOkSingle(Tail(b), q)
LexOk(l) == IF IsMultiLit(l) THEN ~HasSub(SubSeq(l, 4, Len(l) - 3), SubSeq(l, 1, 3))
            ELSE Len(l) >= 2 /\ l[1] \in {SQ, DQ} /\ l[Len(l)] = l[1] /\ LexOkSingle(SubSeq(l, 2, Len(l) - 1), l[1])

\* ------------------------------------------------------------------ the printer's choice function (design)
PrintModel(v, indent, preferSingle) ==
  LET q == IF preferSingle THEN SQ ELSE DQ
      t1 == IF preferSingle THEN TSQ ELSE TDQ
      t2 == IF preferSingle THEN TDQ ELSE TSQ
      multi(d) == LET lines == SplitOn(v, NL)
                      pre == Rep(4 * indent, SP)
                      outl == [i \in 1..Len(lines) |-> pre \o Rep(4, SP) \o lines[i]]
                  IN d \o <<NL>> \o JoinWith(outl, NL) \o <<NL>> \o pre \o d
  IN IF ~Has(v, NL) THEN <<q>> \o Replace(v, <<q>>, <<BS, q>>) \o <<q>>
     ELSE IF HasSub(v, t1)
          THEN (IF HasSub(v, t2) THEN <<q>> \o Replace(Replace(v, <<q>>, <<BS, q>>), <<NL>>, <<BS, CN>>) \o <<q>>
                ELSE multi(t2))
          ELSE multi(t1)

\* ------------------------------------------------------------------ numbers
Digit(c) == IF c >= 48 /\ c <= 57 THEN c - 48 ELSE IF c >= 97 /\ c <= 102 THEN c - 87 ELSE IF c >= 65 /\ c <= 70 THEN c - 55 ELSE 99
RECURSIVE Fold(_, _, _)
Fold(ds, base, acc) == IF ds = <<>> THEN acc ELSE Fold(Tail(ds), base, acc * base + Digit(ds[1]))
ReadInt(t) ==
  LET neg == Len(t) > 0 /\ t[1] = MINUS
      u == IF neg THEN Tail(t) ELSE t
      pre == IF Len(u) >= 2 /\ u[1] = ZERO THEN u[2] ELSE 0
      mag == IF pre \in {120, 88} THEN Fold(SubSeq(u, 3, Len(u)), 16, 0)       \* 0x
             ELSE IF pre \in {111, 79} THEN Fold(SubSeq(u, 3, Len(u)), 8, 0)   \* 0o
             ELSE IF pre \in {98, 66} THEN Fold(SubSeq(u, 3, Len(u)), 2, 0)    \* 0b
             ELSE Fold(u, 10, 0)
  IN IF neg THEN 0 - mag ELSE mag
RECURSIVE StripZeros(_)
StripZeros(s) == IF Len(s) > 0 /\ s[1] = ZERO THEN StripZeros(Tail(s)) ELSE s
\* fixed point: whole part normalised (leading zeros dropped, empty = 0, sign kept even for zero), fraction verbatim
ReadDecimal(t) ==
  LET neg == Len(t) > 0 /\ t[1] = MINUS
      u == IF neg THEN Tail(t) ELSE t
      parts == SplitOn(u, DOT)
      w0 == StripZeros(parts[1])
      w == IF w0 = <<>> THEN <<ZERO>> ELSE w0
      f == IF Len(parts) < 2 \/ parts[2] = <<>> THEN <<ZERO>> ELSE parts[2]
  IN (IF neg THEN <<MINUS>> ELSE <<>>) \o w \o <<DOT>> \o f
RECURSIVE StripTrailingZeros(_)
StripTrailingZeros(s) == IF Len(s) > 0 /\ s[Len(s)] = ZERO THEN StripTrailingZeros(SubSeq(s, 1, Len(s) - 1)) ELSE s
\* position-mark coordinate -> <<tile, half-tile offset>>, "invalid" if the fraction is neither 0 nor 5
ReadPosArg(t) ==
  IF ~Has(t, DOT) THEN <<ReadInt(t), 0>>
  ELSE LET parts == SplitOn(t, DOT)
           tile == IF parts[1] = <<>> THEN 0 ELSE ReadInt(parts[1])
           fr == StripTrailingZeros(parts[2])
       IN IF fr = <<>> THEN <<tile, 0>> ELSE IF fr = <<53>> THEN <<tile, 2>> ELSE <<-1, -1>>

\* ------------------------------------------------------------------ verdicts on recorded cases
\* kinds of case:
\*  "value"   : [v, indent, preferSingle, printed, parsed, status]  value -> printed by the real printer -> real compile
\*  "spelling": [lit, parsed, status]                               literal spelling -> real compile
\*  "int" / "dec" / "pos": [text, status, pint | pdec | ppos]
\* characters other than newline at which the real multi-line reader breaks lines / the single-line lexer stops
LineBreakLike == {11, 12, 13, 28, 29, 30, 133, 8232, 8233}
HasLineBreakLike(v) == \E i \in 1..Len(v) : v[i] \in LineBreakLike
ValueVerdict(c) ==
  IF c.status = "ok" /\ c.parsed = c.v THEN "ok"
  ELSE LET m == PrintModel(c.v, c.indent, c.preferSingle) IN
       IF c.printed # m THEN (IF c.status # "ok" THEN "new:rejected" ELSE "new:value-changed")
       ELSE IF HasLineBreakLike(c.v) THEN "known:line-break-like-character"
       ELSE IF ~IsMultiLit(m) /\ Has(c.v, BS) THEN "known:backslash-not-escaped"
       ELSE IF IsMultiLit(m) /\ ReadLit(m) # c.v THEN "known:dedent-eats-common-indent"
       ELSE IF c.status # "ok" THEN "new:rejected" ELSE "new:value-changed"
SpellingVerdict(c) == IF c.status = "ok" /\ c.parsed = ReadLit(c.lit) THEN "ok"
                      ELSE IF c.status # "ok" THEN "new:spelling-rejected" ELSE "new:spelling-misread"
NumVerdict(c) ==
  CASE c.kind = "int" -> IF c.status = "ok" /\ c.pint = ReadInt(c.text) THEN "ok" ELSE "new:int"
    [] c.kind = "dec" -> IF c.status = "ok" /\ c.pdec = ReadDecimal(c.text) THEN "ok" ELSE "new:decimal"
    [] c.kind = "pos" -> IF (c.status = "ok" /\ c.ppos = ReadPosArg(c.text)) \/ (c.status # "ok" /\ ReadPosArg(c.text) = <<-1, -1>>)
                         THEN "ok" ELSE "new:position-arg"
\* any non-string parameter: printed by a decompiler, compiled again, compared as canonical tokens; `alias' lists the
\* spellings the statement tolerates (a dungeon-mode number 0..3 may come back as its configured constant)
TokenVerdict(c) == IF c.status = "ok" /\ (c.tout = c.tin \/ \E i \in 1..Len(c.alias) : c.alias[i] = c.tout) THEN "ok"
                   ELSE IF c.status # "ok" THEN "new:token-rejected" ELSE "new:token-changed"
Verdict(c) == CASE c.kind = "value" -> ValueVerdict(c)
                [] c.kind = "token" -> TokenVerdict(c)
                [] c.kind = "spelling" -> SpellingVerdict(c)
                [] OTHER -> NumVerdict(c)

\* ------------------------------------------------------------------ design-level exploration (Mode = "design"):
\* over all strings of length <= MaxLen over the seven critical characters, which values can the printer's design
\* not print?  TLC shows that every such value falls into one of the two NAMED classes (DesignClassified).
CONSTANTS Mode, MaxLen
Sigma == {SP, NL, 97, SQ, DQ, BS, CN}
DesignStrings == UNION {[1..n -> Sigma] : n \in 0..MaxLen}
DesignOk(v, indent, p) == LET m == PrintModel(v, indent, p) IN LexOk(m) /\ ReadLit(m) = v
DesignVerdict(v) ==
  IF \A i \in 0..1, p \in BOOLEAN : DesignOk(v, i, p) THEN "ok"
  ELSE LET i == CHOOSE i \in 0..1 : \E p \in BOOLEAN : ~DesignOk(v, i, p)
           p == CHOOSE p \in BOOLEAN : ~DesignOk(v, i, p)
           m == PrintModel(v, i, p) IN
       IF IsMultiLit(m) THEN "known:dedent-eats-common-indent"
       ELSE IF Has(v, BS) THEN "known:backslash-not-escaped" ELSE "new:design"

VARIABLES cid, verdict, dv
Init == IF Mode = "design"
        THEN dv \in DesignStrings /\ cid = 0 /\ verdict = DesignVerdict(dv)
        ELSE cid \in 1..Len(Cases) /\ dv = <<>> /\ verdict = Verdict(Cases[cid])
Next == UNCHANGED <<cid, verdict, dv>>
Spec == Init /\ [][Next]_<<cid, verdict, dv>>
RoundTrips == verdict = "ok"
DesignClassified == verdict \in {"ok", "known:dedent-eats-common-indent", "known:backslash-not-escaped"}
Report == verdict # "ok" => PrintT(<<"VIOL", cid, verdict>>)
=============================================================================
