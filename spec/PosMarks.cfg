SPECIFICATION PSpec
CONSTANTS Mode = "cases"
 MaxLen = 0
INVARIANT PReport
INVARIANT Delimits
CHECK_DEADLOCK FALSE
