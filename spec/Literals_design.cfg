SPECIFICATION Spec
CONSTANTS Mode = "design"
 MaxLen = 4
INVARIANT DesignClassified
CHECK_DEADLOCK FALSE
