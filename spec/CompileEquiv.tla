---------------------------- MODULE CompileEquiv ----------------------------
(***************************************************************************)
(* C01 / C05  Lock-step product of the source semantics (ExpsSemantics)    *)
(* with the SSB machine running the ops the real compiler produced.        *)
(*                                                                         *)
(* The SSB machine is the one the property statement describes: ops run in *)
(* order; a branch, case or call op goes to its target exactly when taken; *)
(* Jump always goes (silently); flow-ending ops stop; running off the end  *)
(* of a routine stops it like Return.  Tests are uninterpreted: `taken' is *)
(* chosen nondeterministically and SHARED by both sides at every Sync, so  *)
(* TLC visits every path for every outcome of every test.                  *)
(*                                                                         *)
(* Both systems are deterministic given the outcomes, so this product      *)
(* decides trace equivalence.  TauB is enabled only when the source side   *)
(* is at an observable step, which keeps the schedule deterministic.       *)
(***************************************************************************)
EXTENDS ExpsSemantics, Ssb, Json, IOUtils
Cases == JsonDeserialize(IOEnv.CASES_FILE)
VARIABLES cid, rt, s, b, st, ts, tb
vars == <<cid, rt, s, b, st, ts, tb>>

R(c) == Cases[c].ops
Src(c) == Cases[c]

OffOp == [off |-> -1, op |-> "Return", ps |-> <<>>, tgt |-> -1, pseudo |-> FALSE]
BOp(c, p) == IF p[2] <= Len(R(c)[p[1]]) THEN R(c)[p[1]][p[2]] ELSE OffOp
BKindOf(o) == LET k == Kind(o.op) IN IF k \in {"ctx", "plain"} THEN "op" ELSE k
BLbl(o) == [op |-> o.op, ps |-> o.ps]
Goto(c, off) == LET ps == PosOf(R(c), off) IN IF ps = {} THEN <<0, 0>> ELSE CHOOSE p \in ps : TRUE

\* static part of C01: id, kind, target and coroutine name of every routine
InfoOk(c, k) ==
  LET sr == Src(c).routines[k]  rix == sr.rix IN
  /\ rix \in 1..Len(Src(c).infos)
  /\ Src(c).infos[rix].kind = sr.kind
  /\ Src(c).infos[rix].target = sr.target
  /\ Src(c).infos[rix].coro = sr.coro
  /\ sr.alias => Len(R(c)[rix]) = 0
TablesOk(c) == /\ Len(Src(c).infos) = Len(R(c))
               /\ \A k \in 1..Len(Src(c).routines) : InfoOk(c, k)

Init ==
  /\ cid \in 1..Len(Cases)
  /\ ts = 0 /\ tb = 0
  /\ \/ /\ rt = 0 /\ s = OffCfg /\ b = <<0, 0>>
        /\ st = IF TablesOk(cid) THEN "done" ELSE "tables"
     \/ /\ rt \in {k \in 1..Len(Src(cid).routines) : ~Src(cid).routines[k].alias /\ Src(cid).routines[k].rix \in 1..Len(R(cid))}
        /\ s = Enter(Src(cid).routines[rt].body, OffCfg, <<>>)
        /\ b = <<Src(cid).routines[rt].rix, 1>>
        /\ st = "run"

\* a silent cycle on one side while the other waits at an observable step is a divergence
TauBudgetS(c) == 6 * Len(Src(c).nodes) + 16
TauS == /\ st = "run" /\ SKind(Src(cid), s) = "tau"
        /\ IF ts > TauBudgetS(cid) THEN st' = "srcloop" /\ UNCHANGED <<s, ts>>
           ELSE s' = SNext(Src(cid), s, FALSE) /\ ts' = ts + 1 /\ st' = st
        /\ UNCHANGED <<cid, rt, b, tb>>

TauB == /\ st = "run" /\ SKind(Src(cid), s) # "tau" /\ BKindOf(BOp(cid, b)) = "jump"
        /\ LET g == Goto(cid, BOp(cid, b).tgt) IN
           IF g = <<0, 0>> THEN st' = "crash" /\ UNCHANGED <<b, tb>>
           ELSE IF tb > NumOps(R(cid)) THEN st' = "diverge" /\ UNCHANGED <<b, tb>>
           ELSE b' = g /\ tb' = tb + 1 /\ st' = st
        /\ UNCHANGED <<cid, rt, s, ts>>

Sync == /\ st = "run" /\ SKind(Src(cid), s) # "tau" /\ BKindOf(BOp(cid, b)) # "jump"
        /\ LET sk == SKind(Src(cid), s)  sl == SLbl(Src(cid), s)  bo == BOp(cid, b) IN
           IF sk # BKindOf(bo) \/ sl # BLbl(bo) THEN st' = "mismatch" /\ UNCHANGED <<s, b>>
           ELSE CASE sk = "op" -> s' = SNext(Src(cid), s, FALSE) /\ b' = <<b[1], b[2] + 1>> /\ st' = st
                  [] sk = "test" -> \E taken \in BOOLEAN :
                        /\ s' = SNext(Src(cid), s, taken)
                        /\ IF taken
                           THEN LET g == Goto(cid, bo.tgt) IN
                                IF g = <<0, 0>> THEN st' = "crash" /\ b' = b ELSE b' = g /\ st' = st
                           ELSE b' = <<b[1], b[2] + 1>> /\ st' = st
                  [] sk = "stop" -> st' = "done" /\ UNCHANGED <<s, b>>
        /\ ts' = 0 /\ tb' = 0
        /\ UNCHANGED <<cid, rt>>

Next == TauS \/ TauB \/ Sync
Spec == Init /\ [][Next]_vars

Bad == {"mismatch", "crash", "tables", "diverge"} \cup (IF Cases[cid].strictSrc THEN {"srcloop"} ELSE {})
Agree == st \notin {"mismatch", "diverge"} /\ (Cases[cid].strictSrc => st # "srcloop")
NoCrash == st # "crash"
RoutineTable == st # "tables"
Report == st \in Bad =>
  PrintT(<<"VIOL", cid, st, rt, s.pt.t, s.pt.n, b[1], b[2],
           IF st = "mismatch" THEN SKind(Src(cid), s) ELSE "", IF st = "mismatch" THEN BOp(cid, b).op ELSE "">>)
=============================================================================
