----------------------------- MODULE Structuring -----------------------------
(***************************************************************************)
(* C13  Flat structured programs decompile back to structured, jump-free   *)
(* text.                                                                   *)
(*                                                                         *)
(* Each case carries the node table S of a flat structured source program  *)
(* (the property's family: plain statements, if-chains and break-terminated*)
(* switches whose blocks hold only plain statements, one final terminator) *)
(* and the node table T of the text the real decompiler printed for the    *)
(* compiled routines.  The specification scans T statement by statement    *)
(* (one Scan step per node) and keeps a ledger of how often each operation *)
(* of S has been printed.                                                  *)
(*   NoJumpStmt  - T contains no `jump' statement                          *)
(*   EachOpOnce  - every operation label of S is printed exactly as often  *)
(*                 as it is written in S (exactly once for distinct ops)   *)
(*   InFamily    - S itself is in the family (domain check of the          *)
(*                 generator, reported as out-of-domain, not as a verdict) *)
(***************************************************************************)
EXTENDS ExpsForms, FiniteSets, Json, IOUtils
Cases == JsonDeserialize(IOEnv.CASES_FILE)
VARIABLES cid, n, printed, st
vars == <<cid, n, printed, st>>

S(c) == Cases[c].s
T(c) == Cases[c].t

PlainKinds == {"op", "with", "msw"}
\* labels an op-like node prints (operation statements, assignments, message-switch headers and their texts)
OpLabels(tab, k) ==
  LET nd == tab.nodes[k] IN
  CASE nd.k = "op"  -> {Lbl([f |-> nd.f, a |-> nd.a], "")}
    [] nd.k = "msw" -> {Lbl(nd.h, "")} \cup {CaseTextLbl(nd.cases[j]) : j \in 1..Len(nd.cases)}
    [] OTHER -> {}
AllOpNodes(tab) == {k \in 1..Len(tab.nodes) : tab.nodes[k].k \in {"op", "msw"}}
Count(tab, l) == Cardinality({k \in AllOpNodes(tab) : l \in OpLabels(tab, k)})
SrcLabels(c) == UNION {OpLabels(S(c), k) : k \in AllOpNodes(S(c))}

\* the family of the property: blocks hold only plain statements; top level also if / switch
BlockPlain(tab, blk) == \A i \in 1..Len(blk) : tab.nodes[blk[i]].k \in PlainKinds
CaseOk(tab, cs) == Len(cs.body) = 0 \/ (BlockPlain(tab, SubSeq(cs.body, 1, Len(cs.body) - 1)) /\ tab.nodes[cs.body[Len(cs.body)]].k = "break")
TopOk(tab, k) ==
  LET nd == tab.nodes[k] IN
  CASE nd.k \in PlainKinds -> TRUE
    [] nd.k = "if" -> /\ \A a \in 1..Len(nd.arms) : BlockPlain(tab, nd.arms[a].body)
                      /\ BlockPlain(tab, nd.els)
    [] nd.k = "switch" -> \A j \in 1..Len(nd.cases) : CaseOk(tab, nd.cases[j])
    [] nd.k = "ctrl" -> TRUE
    [] OTHER -> FALSE
InFamily(c) == \A r \in 1..Len(S(c).routines) :
   LET b == S(c).routines[r].body IN
   /\ Len(b) >= 1 /\ S(c).nodes[b[Len(b)]].k = "ctrl"
   /\ \A i \in 1..Len(b) : TopOk(S(c), b[i]) /\ (S(c).nodes[b[i]].k = "ctrl" => i = Len(b))

Init == /\ cid \in 1..Len(Cases) /\ n = 0 /\ printed = [l \in SrcLabels(cid) |-> 0]
        /\ st = IF Cases[cid].status # "ok" THEN "nottext" ELSE IF ~InFamily(cid) THEN "outofdomain" ELSE "scan"

Scan == /\ st = "scan" /\ n < Len(T(cid).nodes)
        /\ n' = n + 1
        /\ LET nd == T(cid).nodes[n + 1] IN
           /\ st' = IF nd.k = "jump" THEN "jump" ELSE st
           /\ printed' = [l \in SrcLabels(cid) |-> printed[l] + (IF l \in OpLabels(T(cid), n + 1) THEN 1 ELSE 0)]
        /\ UNCHANGED cid
Finish == /\ st = "scan" /\ n = Len(T(cid).nodes)
          /\ st' = IF \A l \in SrcLabels(cid) : printed[l] = Count(S(cid), l) THEN "done" ELSE "opcount"
          /\ UNCHANGED <<cid, n, printed>>
Next == Scan \/ Finish
Spec == Init /\ [][Next]_vars

NoJumpStmt == st # "jump"
EachOpOnce == st # "opcount"
IsText == st # "nottext"
InDomain == st # "outofdomain"
Report == st \in {"jump", "opcount", "nottext", "outofdomain"} => PrintT(<<"VIOL", cid, st, n>>)
=============================================================================
