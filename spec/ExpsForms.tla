----------------------------- MODULE ExpsForms -----------------------------
(***************************************************************************)
(* The documented opcode and parameter order of every surface form of      *)
(* ExplorerScript (docs/language_spec.rst, "EoS Compiler" admonitions).    *)
(*                                                                         *)
(* A header / simple statement arrives as a record  [f |-> form, a |-> Seq *)
(* of tokens] exactly as written in the source; Lbl(h, sw) is the event    *)
(* label  [op |-> opcode, ps |-> parameter tokens]  the machine must show. *)
(* `sw' is the form-label of the enclosing switch header ("" if none): a   *)
(* value case under a scenario switch is spelt CaseScenario.               *)
(***************************************************************************)
EXTENDS Naturals, Integers, Sequences, TLC

PPLTok == "c:$PERFORMANCE_PROGRESS_LIST"

IntTok(n) == "i:" \o ToString(n)

OpNum(o) == CASE o = "FALSE" -> 0 [] o = "TRUE" -> 1 [] o = "==" -> 2 [] o = ">" -> 3 [] o = "<" -> 4
              [] o = ">=" -> 5 [] o = "<=" -> 6 [] o = "!=" -> 7 [] o = "&" -> 8 [] o = "^" -> 9 [] o = "&<<" -> 10
CalcNum(o) == CASE o = "=" -> 0 [] o = "-=" -> 1 [] o = "+=" -> 2 [] o = "*=" -> 3 [] o = "/=" -> 4

L(op, ps) == [op |-> op, ps |-> ps]

ScnBranch(o) == CASE o = "==" -> "BranchScenarioNow" [] o = ">=" -> "BranchScenarioNowAfter"
                  [] o = "<=" -> "BranchScenarioNowBefore" [] o = ">" -> "BranchScenarioAfter"
                  [] o = "<" -> "BranchScenarioBefore" [] OTHER -> "INVALID-scn-operator"

CtxOp(k) == CASE k = "actor" -> "lives" [] k = "object" -> "object" [] k = "performer" -> "performer"
              [] OTHER -> "INVALID-ctx"

Lbl(h, sw) ==
  LET f == h.f  a == h.a IN
  CASE f \in {"op", "c_opn", "sw_op"} -> L(a[1], Tail(a))
    [] f = "return" -> L("Return", <<>>)
    [] f = "end"    -> L("End", <<>>)
    [] f = "hold"   -> L("Hold", <<>>)
    \* conditions
    [] f = "c_op"    -> IF a[2] = "==" THEN L("Branch", <<a[1], a[3]>>)
                        ELSE L("BranchValue", <<a[1], IntTok(OpNum(a[2])), a[3]>>)
    [] f = "c_opvar" -> L("BranchVariable", <<a[1], IntTok(OpNum(a[2])), a[3]>>)
    [] f = "c_bit"   -> IF a[1] = PPLTok THEN L("BranchPerformance", <<a[2], IF a[3] = "1" THEN "i:0" ELSE "i:1">>)
                        ELSE L("BranchBit", <<a[1], a[2]>>)
    [] f = "c_scn"   -> L(ScnBranch(a[2]), <<a[1], a[3], a[4]>>)
    [] f = "c_kw"    -> L(CASE a[1] = "debug" -> "BranchDebug" [] a[1] = "edit" -> "BranchEdit"
                            [] a[1] = "variation" -> "BranchVariation",
                          <<IF a[2] = "1" THEN "i:0" ELSE "i:1">>)
    \* switch headers
    [] f = "sw_var"    -> L("Switch", <<a[1]>>)
    [] f = "sw_scn"    -> L(IF a[2] = "i:0" THEN "SwitchScenario" ELSE "SwitchScenarioLevel", <<a[1]>>)
    [] f = "sw_random" -> L("SwitchRandom", <<a[1]>>)
    [] f = "sw_dmode"  -> L("SwitchDungeonMode", <<a[1]>>)
    [] f = "sw_sector" -> L("SwitchSector", <<>>)
    \* case headers
    [] f = "cs_val"   -> L("Case", <<a[1]>>)
    [] f = "cs_op"    -> L(IF sw = "SwitchScenario" THEN "CaseScenario" ELSE "CaseValue", <<IntTok(OpNum(a[1])), a[2]>>)
    [] f = "cs_opvar" -> L("CaseVariable", <<IntTok(OpNum(a[1])), a[2]>>)
    [] f = "cs_menu"  -> L("CaseMenu", <<a[1]>>)
    [] f = "cs_menu2" -> L("CaseMenu2", <<a[1]>>)
    \* message switches
    [] f = "msw" -> L(IF a[1] = "talk" THEN "message_SwitchTalk" ELSE "message_SwitchMonologue", <<a[2]>>)
    \* assignments
    [] f = "as_reg"    -> IF a[2] = "=" THEN L("flag_Set", <<a[1], a[3]>>)
                          ELSE L("flag_CalcValue", <<a[1], IntTok(CalcNum(a[2])), a[3]>>)
    [] f = "as_regvar" -> L("flag_CalcVariable", <<a[1], IntTok(CalcNum(a[2])), a[3]>>)
    [] f = "as_bit"    -> IF a[1] = PPLTok THEN L("flag_SetPerformance", <<a[2], a[4]>>)
                          ELSE L("flag_CalcBit", <<a[1], a[2], a[4]>>)
    [] f = "as_clear"     -> L("flag_Clear", <<a[1]>>)
    [] f = "as_init"      -> L("flag_Initial", <<a[1]>>)
    [] f = "as_reset_scn" -> L("flag_ResetScenario", <<a[1]>>)
    [] f = "as_reset_dr"  -> L("flag_ResetDungeonResult", <<>>)
    [] f = "as_advlog"    -> L("flag_SetAdventureLog", <<a[1]>>)
    [] f = "as_dmode"     -> L("flag_SetDungeonMode", <<a[1], a[2]>>)
    [] f = "as_scn"       -> L("flag_SetScenario", <<a[1], a[2], a[3]>>)
    \* contexts
    [] f = "ctx" -> L(CtxOp(a[1]), <<a[2]>>)

\* the switch-header opcode that decides how a value case is spelt
SwName(h) == IF h.f = "" THEN "" ELSE Lbl(h, "").op

\* text cases of a message switch
CaseTextLbl(cs) == IF cs.isDef THEN L("DefaultText", <<cs.s>>) ELSE L("CaseText", <<cs.h.a[1], cs.s>>)
=============================================================================
