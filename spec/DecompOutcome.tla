---------------------------- MODULE DecompOutcome ----------------------------
(***************************************************************************)
(* C06  The decompiler always answers; its SsbScript fallback is marked    *)
(* and exact.                                                              *)
(*                                                                         *)
(* convert() as a state machine over the outcome trace recorded from the   *)
(* real code:   Start -> Structured                                        *)
(*              Start -> Abort -> Fallback -> Recompiled                   *)
(* `Raised' and `Hang' are deliberately NOT actions: a trace containing    *)
(* them cannot be consumed and is rejected.  Fallback requires the marker  *)
(* line to be the first line of the text; Recompiled requires the          *)
(* ExplorerScript compiler to reproduce the input op for op                *)
(* (Ssb!SameUpToRenumber) with the same routine table.                     *)
(***************************************************************************)
EXTENDS Ssb, TLC, Json, IOUtils
Cases == JsonDeserialize(IOEnv.CASES_FILE)
VARIABLES cid, l, phase
vars == <<cid, l, phase>>

Tr(c) == Cases[c].trace
IsEvent(e) == l <= Len(Tr(cid)) /\ Tr(cid)[l] = e /\ l' = l + 1

Init == cid \in 1..Len(Cases) /\ l = 1 /\ phase = "idle"

Start      == IsEvent("start") /\ phase = "idle" /\ phase' = "running" /\ UNCHANGED cid
Structured == IsEvent("structured") /\ phase = "running" /\ phase' = "structured" /\ UNCHANGED cid
Abort      == IsEvent("abort") /\ phase = "running" /\ phase' = "aborted" /\ UNCHANGED cid
Fallback   == /\ IsEvent("fallback") /\ phase = "aborted"
              /\ phase' = IF Cases[cid].firstLine = "//?: is-ssb-script: true" THEN "fallback" ELSE "unmarked"
              /\ UNCHANGED cid
Recompiled == /\ IsEvent("recompiled") /\ phase = "fallback"
              /\ phase' = IF /\ SameInfos(Cases[cid].infoIn, Cases[cid].infoOut)
                             /\ SameUpToRenumber(Cases[cid].inp, Cases[cid].out)
                          THEN "exact" ELSE "inexact"
              /\ UNCHANGED cid

Next == Start \/ Structured \/ Abort \/ Fallback \/ Recompiled
Spec == Init /\ [][Next]_vars

\* the trace is accepted iff it is consumed completely and ends in an accepting phase
Stuck == ~ENABLED Next
Accepted == Stuck => (l = Len(Tr(cid)) + 1 /\ phase \in {"structured", "exact"})
Report == (Stuck /\ ~(l = Len(Tr(cid)) + 1 /\ phase \in {"structured", "exact"})) =>
            PrintT(<<"VIOL", cid, phase, l, IF l <= Len(Tr(cid)) THEN Tr(cid)[l] ELSE "<end>">>)
=============================================================================
