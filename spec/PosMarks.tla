------------------------------- MODULE PosMarks -------------------------------
(***************************************************************************)
(* C18  The position-mark listing delimits every Position literal exactly. *)
(*                                                                         *)
(* The generator of the harness writes a source text token by token and    *)
(* records, for every Position<...> literal it writes, where the word      *)
(* `Position' and the closing `>' were put and how name and coordinates    *)
(* were spelt (`expected').  The real PositionMarkVisitor lists the marks   *)
(* (`listing'), the real compiler compiles the text (`compiled': the       *)
(* parameter it produced for each literal, found by its unique name), and  *)
(* for every literal the text is edited by replacing exactly the span the  *)
(* listing reported with the printed form of a changed mark and compiled   *)
(* again (`edits': the parameter differences between the two results).     *)
(* The checker walks the literals in source order (Check), then the edits. *)
(***************************************************************************)
EXTENDS Literals
PCases == JsonDeserialize(IOEnv.CASES_FILE)
VARIABLES pc, i, ph, pst
pvars == <<pc, i, ph, pst>>

Exp(c) == PCases[c].expected
Lst(c) == PCases[c].listing

PInit == pc \in 1..Len(PCases) /\ i = 0 /\ ph = "list" /\ cid = 0 /\ verdict = "ok" /\ dv = <<>>
         /\ pst = IF PCases[pc].status # "ok" THEN "listing-raised"
                  ELSE IF Len(Lst(pc)) # Len(Exp(pc)) THEN "count" ELSE "ok"

FieldsOk(e, l) ==
  LET x == ReadPosArg(e.xtext)  y == ReadPosArg(e.ytext) IN
  l.name = e.name /\ l.xr = x[1] /\ l.xo = x[2] /\ l.yr = y[1] /\ l.yo = y[2]

Check == /\ ph = "list" /\ pst = "ok"
         /\ IF i = Len(Exp(pc)) THEN ph' = "edit" /\ i' = 0 /\ UNCHANGED pst
            ELSE LET e == Exp(pc)[i + 1]  l == Lst(pc)[i + 1] IN
                 /\ i' = i + 1 /\ ph' = ph
                 /\ pst' = IF <<l.line, l.col>> # <<e.line, e.col>> THEN "start"
                           ELSE IF <<l.eline, l.ecol>> # <<e.eline, e.ecol>> THEN "end"
                           ELSE IF ~FieldsOk(e, l) THEN "fields"
                           ELSE IF e.hasCompiled /\ (e.compiled.name # l.name \/ e.compiled.xr # l.xr \/ e.compiled.xo # l.xo
                                                    \/ e.compiled.yr # l.yr \/ e.compiled.yo # l.yo) THEN "differs-from-compiled-parameter"
                           ELSE "ok"
         /\ UNCHANGED pc
\* an edit of literal k must change exactly the parameter(s) that literal produced, to the new mark, and nothing else
EditOk(ed) == /\ ed.status = "ok"
              /\ Len(ed.diffs) >= 1
              /\ \A j \in 1..Len(ed.diffs) : ed.diffs[j].old = ed.oldTok /\ ed.diffs[j].new = ed.newTok
              /\ Len(ed.diffs) = ed.occurrences
Edit == /\ ph = "edit" /\ pst = "ok"
        /\ IF i = Len(PCases[pc].edits) THEN ph' = "done" /\ UNCHANGED <<i, pst>>
           ELSE /\ i' = i + 1 /\ ph' = ph
                /\ pst' = IF EditOk(PCases[pc].edits[i + 1]) THEN "ok" ELSE "edit-changes-something-else"
        /\ UNCHANGED pc
PNext == (Check \/ Edit) /\ UNCHANGED <<cid, verdict, dv>>
PSpec == PInit /\ [][PNext]_<<pvars, cid, verdict, dv>>
Delimits == pst = "ok"
PReport == pst # "ok" => PrintT(<<"VIOL", pc, pst, i>>)
=============================================================================
