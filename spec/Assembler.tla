----------------------------- MODULE Assembler -----------------------------
(***************************************************************************)
(* C03  Compiled output is a closed, uniquely addressed op list.           *)
(*                                                                         *)
(* The downstream consumer of a compile result as a state machine: an      *)
(* assembler that first Places every op in routine order (needs a fresh    *)
(* offset and a real op), then Patches every op of a jump-carrying kind    *)
(* (needs the last parameter to be the offset of a placed op), after       *)
(* checking that the three tables are aligned.  The case data are the      *)
(* results of the real compilers.                                          *)
(***************************************************************************)
EXTENDS Ssb, TLC, Json, IOUtils
Cases == JsonDeserialize(IOEnv.CASES_FILE)
VARIABLES cid, phase, r, i, placed, st
vars == <<cid, phase, r, i, placed, st>>

R(c) == Cases[c].ops

TablesAligned(c) == Cases[c].nInfos = Len(R(c)) /\ Cases[c].nCoros = Len(R(c))
                    /\ \A k \in 1..Len(Cases[c].infoKinds) : Cases[c].infoKinds[k] # "NONE"

Init == /\ cid \in 1..Len(Cases) /\ phase = "place" /\ r = 1 /\ i = 0 /\ placed = {}
        /\ st = IF TablesAligned(cid) THEN "run" ELSE "tables"

RECURSIVE NextPos(_, _, _)
NextPos(RR, rr, ii) ==
  IF rr > Len(RR) THEN <<0, 0>>
  ELSE IF ii < Len(RR[rr]) THEN <<rr, ii + 1>>
  ELSE NextPos(RR, rr + 1, 0)

Place ==
  /\ st = "run" /\ phase = "place"
  /\ LET p == NextPos(R(cid), r, i) IN
     IF p = <<0, 0>> THEN phase' = "patch" /\ r' = 1 /\ i' = 0 /\ UNCHANGED <<placed, st>>
     ELSE LET o == R(cid)[p[1]][p[2]] IN
          /\ r' = p[1] /\ i' = p[2] /\ phase' = phase
          /\ IF o.pseudo THEN st' = "pseudo" /\ UNCHANGED placed
             ELSE IF o.off \in placed THEN st' = "dup" /\ UNCHANGED placed
             ELSE placed' = placed \cup {o.off} /\ st' = st
  /\ UNCHANGED cid

Patch ==
  /\ st = "run" /\ phase = "patch"
  /\ LET p == NextPos(R(cid), r, i) IN
     IF p = <<0, 0>> THEN st' = "done" /\ UNCHANGED <<phase, r, i, placed>>
     ELSE LET o == R(cid)[p[1]][p[2]] IN
          /\ r' = p[1] /\ i' = p[2] /\ UNCHANGED <<phase, placed>>
          /\ st' = IF o.op \notin JumpCarrying THEN st
                   ELSE IF o.tgt = -1 THEN "notarget"
                   ELSE IF o.tgt \notin placed THEN "dangling"
                   ELSE IF Cases[cid].checkArity /\ Len(o.ps) # JumpArity(o.op) THEN "arity"
                   ELSE st
  /\ UNCHANGED cid

Next == Place \/ Patch
Spec == Init /\ [][Next]_vars

Bad == {"tables", "pseudo", "dup", "notarget", "dangling", "arity"}
Closed == st \notin Bad
Report == st \in Bad => PrintT(<<"VIOL", cid, st, r, i>>)
\* the placed set only grows, and only during Place
PlacedMonotone == [][placed \subseteq placed']_vars
=============================================================================
