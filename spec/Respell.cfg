SPECIFICATION Spec
INVARIANT Report
INVARIANT SameMeaning
CHECK_DEADLOCK FALSE
