SPECIFICATION Spec
INVARIANT Report
INVARIANT Survives
CHECK_DEADLOCK FALSE
