SPECIFICATION Spec
CONSTANTS Mode = "design"
 MaxLen = 4
INVARIANT TotalAndLossless
CHECK_DEADLOCK FALSE
