#!/usr/bin/env python3
"""Regenerates MANIFEST.json from the table below (one source of truth)."""
import json, os, subprocess
V = os.path.dirname(os.path.dirname(os.path.abspath(__file__)))
props = [json.loads(l) for l in open(os.path.join(V, "properties.jsonl"))]

CLAIMS = {
 "C12": dict(
   text="CacheThreads.tla models threads x process-wide cache x lock x id allocator with the lock-protected steps exactly as the code takes them; TLC "
        "explores all interleavings within the bounds (ResultSequential, NoMissingBucket, UniqueLiveIds) and the named deviation must still fail. Real "
        "threads run mixed compile/decompile calls under a deterministic one-runnable-thread scheduler (yield points: every cache-lock acquisition, "
        "lexer token and parser prediction; seeded and preemption-bounded schedules) and free-running with a 1e-6 switch interval; each call's digest "
        "must equal its solo digest, no call may raise, and the interleaved cache events recorded by the guarded hooks are validated by TLC against "
        "ProcessState.tla.",
   ref="§3 C12", technique="TLC model checking of the threads x cache x lock model + TLC trace validation of real multi-threaded runs under a deterministic scheduler",
   note="2-3 threads, bounded model; schedules at cache-operation / token / prediction granularity, bytecode-level preemption only by free-running stress; ANTLR internals not modelled"),
 "C11": dict(
   text="ProcessState.tla models the process-wide memo table keyed by id(graph) with id recycling, pinning and the pass structure of convert(); TLC "
        "explores all histories within the bounds (CacheTransparent) and the named deviation of the pinned tree must still produce the counterexample. "
        "Every history of <=2 (thorough: <=3) calls over 23 concrete compile/decompile calls is replayed in a fresh process under a deterministic "
        "lowest-free id allocator; the cache events recorded through the guarded hooks are validated by TLC against the model's transition relation "
        "(a stale hit or a store into a missing bucket is not an action) and the observed call's digest must equal its fresh-process digest; convert() "
        "must not alter its argument (also: convert() twice on the same operation objects for every special-syntax opcode family). CacheDesign.tla is "
        "the same design without bounds: TLC exhaustively for 3 ids x 2 keys in every run; in the thorough tier a TLAPS proof of Spec => []CacheTransparent "
        "for arbitrary Ids and Keys and Apalache's inductive-invariant check, each with the deviation as vacuity guard.",
   ref="§3 C11, §A", technique="TLC model checking of the cache/id-reuse model (plus TLAPS proof / Apalache inductive invariant of its unbounded form) + TLC trace validation of hook-recorded cache events from replayed histories",
   note="bounded model (2 ids, 2 keys, 3-4 calls); histories over a fixed alphabet of calls incl. witnesses projected from the model's counterexample; lowest-free id reuse"),
 "C15": dict(
   text="Both commands are run as subprocesses. CliContract.tla is the contract as a state machine (RunCompile: exit 0 iff the API accepts; "
        "ReadDocument: documented structure and every jump parameter = 1-based position, across all routines, of the op the API result identifies "
        "as target; RunDecompile: the document is accepted) and TLC validates every recorded run; hand-built documents following the docs (every "
        "routine and argument type, numeric and string coordinates) go through the decompile command; ByteEquiv compares the behaviour of the "
        "decompiled text with the source's compile result.",
   ref="§3 C15", technique="TLC validation of recorded CLI runs against the CliContract.tla state machine + ByteEquiv product for round-trip behaviour",
   note="sampled sources (with and without offset gaps) and documented JSON documents; behaviour compared only inside C02's finding-free domain; runs without answer in 25 s are inconclusive"),
 "C09": dict(
   text="DecompMap.tla walks the map the real decompilers recorded (ExplorerScript structured + fallback, SsbScript), joined with the word found "
        "at the recorded position in the emitted text and with the lines the real compiler's source map gives when the text is compiled again: "
        "every key is an input op, the position is the start of the statement printed for that opcode (surface table per opcode family), every "
        "reachable op printed as its own statement has an entry, uniquely identifiable ops sit on the same line in both maps.",
   ref="§3 C09", technique="TLC validation of recorded decompile-time source maps against the DecompMap.tla walker (entries, coverage, recompiled lines)",
   note="C02's families incl. multi-line string parameters; inputs of C02's structurally mis-decompiled shapes are skipped for the structured path"),
 "C16": dict(
   text="Respell.tla lists exactly the meaning-preserving re-spellings (separator alphabet with the CanAbut table, sigils, legacy routine targets, "
        "trailing commas, integer bases, decimal zeros, quote styles). Chains of re-spellings applied to real programs are compiled step by step with "
        "the real compiler; TLC validates every chain: each step is an enabled action of the spec and the digest of ops / routine table / "
        "position-mark values never changes. Plus every separator at every token boundary of some seeds.",
   ref="§3 C16", technique="TLC trace validation of recorded re-spelling chains against the Respell.tla action system",
   note="sampled seeds and chains; conservative CanAbut"),
 "C17": dict(
   text="PygLexer.tla transcribes Pygments' RegexLexer loop over the lexer's rule table; TLC lexes all strings <=3/4 over a 20-character "
        "alphabet (Progress, Lossless, NoError) and consumes, token by token, the token streams the REAL lexer produced for those strings, "
        "for compiler-accepted and rejected programs and random unicode text (lossless, no Error token on accepted sources); model/real "
        "token-stream agreement is recorded as drift.",
   ref="§3 C17", technique="TLC exploration of a TLA+ model of the RegexLexer loop + token-by-token validation of real lexer output",
   note="bounded alphabet/length for the model; termination judged by a 10 s hard limit; weakest fit for the technique (pure function)"),
 "C18": dict(
   text="The harness writes sources token by token, recording where it put every `Position` word and closing `>`; PosMarks.tla walks the real "
        "listing against that record (order, count, start, end, fields via the specified coordinate reader, equality with the compiled parameter) "
        "and checks every in-place edit of the listed span: exactly the parameter(s) of that literal change, to the new mark.",
   ref="§3 C18", technique="TLC validation of recorded position-mark listings and in-place edits against PosMarks.tla",
   note="sampled placements (arguments, macro bodies and call arguments, switch/condition operation arguments, nested blocks, multi-line literals)"),
 "C08": dict(
   text="SrcMapEquiv.tla is the source x bytecode product in which every op carries the source-map entry the real compiler recorded; TLC checks "
        "at every Sync that the entry is the one the position tables prescribe (direct: statement / condition / switch / case header start; macro: "
        "defining file relative to the compiled file, macro name, position, return address behind the op, call position on the first op of an "
        "expansion), and statically: every op mapped, the layout scan of return addresses, included files = contributing files, position marks.",
   ref="§3 C08", technique="TLC model checking of the source-semantics x bytecode product with per-step source-map agreement (MapAgrees) on real compile results",
   note="bounded/sampled programs incl. multi-file macro trees; compiler-inserted jumps need only an entry; CaseText may map to case header or switch statement"),
 "C10": dict(
   text="StaticValidity.tla defines Valid(program) as exactly the listed classes over the node table and import graph, and compile() as a "
        "machine with one action per documented outcome. TLC validates every recorded compile outcome: injected violations of every class in "
        "every structural position (routines, called and unused macros, nested blocks), valid programs, degenerate files, token-level "
        "corruptions, random text/bytes, import graphs with cycles / missing files / routines in imports.",
   ref="§3 C10", technique="TLC validation of recorded compile() outcomes against StaticValidity.tla (outcome machine + Valid predicate)",
   note="sampled input space; Valid() is evaluated only for syntactically correct inputs; one listed known finding"),
 "C14": dict(
   text="SourceMapOps.tla specifies store/reload and Rewrite(m, f) on the four tables; TLC validates the recorded behaviour of the real class "
        "on synthetic maps over offsets 0..3 (all entry subsets, return addresses incl. 0/none, called_in, int/string parameter values, marks) "
        "and on maps built by the real compiler, each under identity / shifting / dropping / reversing / random injective mappings.",
   ref="§3 C14", technique="TLC validation of recorded serialize/deserialize/rewrite_offsets results against the SourceMapOps.tla state machine",
   note="bounded synthetic maps + sampled real maps; a dropped return address with no later survivor keeps its value"),
 "C04": dict(
   text="Literals.tla holds the specified readers (single/multi-line strings with the documented escapes and dedent rules, integers in "
        "four bases, fixed-point decimals, position coordinates) and the printer's choice function. TLC (a) shows at design level that "
        "every string <=4/5 over the 7 critical characters that the printer design cannot print falls into a named class, (b) judges "
        "every recorded value->real printer->real compiler round trip (all strings <=4/5 x 9 printing contexts x both decompilers, "
        "unicode/random strings, every non-string token through every printing position) and every literal spelling->real compiler "
        "record against the specified readers.",
   ref="§3 C04", technique="TLC evaluation of the Literals.tla reader/printer model over recorded print->parse and spelling->value cases, plus design-level exploration of the printer model",
   note="bounded alphabets/lengths + sampled unicode; three listed known findings (backslash, common indentation, line-break-like characters); only documented escapes in the spelling direction"),
 "C02": dict(
   text="For every well-formed routine set of the bounded families (all flow graphs <=4 ops over a 9-kind alphabet, every opcode family "
        "with special syntax, random graphs, renumbered compile results, re-laid-out variants whose equivalence TLC checks first) the "
        "decompiled text is parsed to a node table and TLC model-checks (a) text-by-ExpsSemantics x input and (b) recompiled x input "
        "(ByteEquiv.tla) on the SSB machine for every outcome of every test, plus routine tables; WellFormed is re-checked in the spec. The decompiler's "
        "first step (offsets -> labels) is recorded and refinement-checked on its own (CompilerPipeline.tla, resolver mode; evidence only).",
   ref="§3 C02", technique="TLC model checking of two lock-step products (source semantics x input bytecode, input x recompiled bytecode) on recorded decompiler output",
   note="bounded families; ten listed known findings (nine shapes, one input hash) (input shapes the decompiler mishandles) are suppressed by shape signature; timeouts/raises/fallbacks belong to C06"),
 "C06": dict(
   text="Every convert() call on the well-formed families of C02 plus hand-built unstructurable graphs is recorded as an outcome trace and "
        "validated by TLC against DecompOutcome.tla (Start->Structured | Start->Abort->Fallback->Recompiled; no Raised action; marker "
        "line; op-for-op exactness via Ssb!SameUpToRenumber and routine-table equality).",
   ref="§3 C06", technique="TLC trace validation of recorded convert() outcome traces against the DecompOutcome.tla state machine",
   note="calls exceeding the 10 s hard limit are inconclusive (counted, not judged): the property sets no deadline"),
 "C13": dict(
   text="Every program of the enumerated flat family (each if-chain/switch shape alone, in context and in ordered pairs) plus random flat "
        "programs is compiled, renumbered and decompiled; TLC scans the text's node table with Structuring.tla (no jump statement, "
        "ledger of printed operations equals the source's, source re-checked to be in the family).",
   ref="§3 C13", technique="TLC validation of recorded compile->decompile round trips against the Structuring.tla scan machine",
   note="bounded family (<=3 items exhaustive by pairs, <=8 random); consistent switch/case header pairs; one listed known finding"),
 "C03": dict(
   text="TLC runs the Assembler.tla state machine (Place every op at a fresh offset, then Patch every jump-carrying op against the "
        "placed offsets, tables aligned, no pseudo op, table arity) over every recorded compile result of the ExplorerScript "
        "compiler (enumerated + random programs, macro/import trees) and the SsbScript compiler (direct and via is-ssb-script).",
   ref="§3 C03", technique="TLC trace validation of recorded compile results against the Assembler.tla consumer state machine",
   note="bounded/sampled program families; SsbScript sources use label markers for all jump slots"),
 "C05": dict(
   text="Three TLA+ models bound to the real compiler: (1) the source-semantics x bytecode product (macro call = push call site, "
        "parameters resolved through the stack, return pops, labels private) model-checked on macro programs incl. all DAGs on <=4 "
        "macros x all definition orders and multi-file trees; (2) MacroOrder.tla: the resolver design over all DAGs (TLC, N<=5) and "
        "the recorded macro_resolution_order of every compile must be topological and the compile must succeed; (3) Imports.tla: "
        "import resolution over an abstract file system vs. the file the real compiler read.",
   ref="§3 C05", technique="TLC model checking of the inlining-semantics product + design model of the resolver + import-resolution state machine, all fed with real compile results",
   note="bounded call graphs (<=5 macros), <=3 files, unique parameter names, lexical parameter resolution"),
 "C01": dict(
   text="TLC model-checks, for every accepted program of a bounded enumerated family (every construct shape in one-hole contexts, "
        "pairwise nesting, label/jump/call graphs, all surface forms) plus random programs, the lock-step product of the source "
        "semantics (ExpsSemantics.tla, ExpsForms.tla) with the SSB machine running the ops the real compiler produced "
        "(CompileEquiv.tla): every path for every outcome of every test, plus the routine table. For a sample the four stages of compile()'s back "
        "half are recorded and TLC checks pass by pass that each refines its input (CompilerPipeline.tla): this names the pass to blame, the verdict stays with the product.",
   ref="§2, §3 C01", technique="TLC model checking of the source-semantics x compiled-bytecode product (explicit TLA+ spec)",
   note="bounded program family + random sampling; tests uninterpreted; Call as two-way test; plain literals; the ANTLR grammar is trusted for syntax when building the node table"),
 "C07": dict(
   text="TLC walks every recorded SsbScript round trip (real decompiler + real compiler) op by op against the input "
        "routine set (SsbScriptRT.tla: same routines, kinds, targets, coroutine names, ops, parameters, jump parameters "
        "denoting the same position). Exhaustive over a small alphabet/size bound, random beyond it.",
   ref="§3 C07", technique="TLC trace validation of recorded round trips against SsbScriptRT.tla (explicit TLA+ spec)",
   note="bounded: routine sets <= bound exhaustively, random sets beyond; jump ops carry table arity; parameters from the plain subset"),
}
PENDING = "check not built yet in this round of the build (DESIGN.md §8 build order); not claimed until it runs green"

def main():
    hooks_commits = []
    try:
        out = subprocess.run(["git", "-C", "/repo", "log", "--format=%H %s"], capture_output=True, text=True).stdout
        hooks_commits = [l.split()[0] for l in out.splitlines() if " verif-hook:" in l or l.split(" ", 1)[1].startswith("verif-hook")]
    except Exception:
        pass
    m = {
      "version": 1,
      "setup_cmd": "cd /verif && /venv/bin/python -m compileall -q vf >/dev/null && cd /verif/spec && for f in *.tla; do tla-sany \"$f\" >/dev/null 2>&1 || { echo \"tla-sany failed on $f\"; exit 1; }; done; echo setup-ok",
      "hooks": {"guard": "EXPLORERSCRIPT_VERIF", "enable": "environment variable EXPLORERSCRIPT_VERIF=1 (set by ./check); pure Python, no build step",
                "baseline_off_cmd": "cd /repo && env -u EXPLORERSCRIPT_VERIF /venv/bin/python -m pytest -ra -q -p no:cacheprovider --timeout=900 --continue-on-collection-errors",
                "source_commits": hooks_commits, "add_only": True},
      "engines": [{"name": "tlc", "path": "spec/", "serves_properties": sorted(CLAIMS), "kind_free_text": "explicit TLA+ specifications checked with TLC 1.8; cases recorded from the real code are validated against them"},
                  {"name": "vf", "path": "vf/", "serves_properties": sorted(CLAIMS), "kind_free_text": "Python harness: generators, real-code drivers, TLC runner, findings protocol"}],
      "checks": [], "not_applicable": [],
      "notes": "All checks: ./check <ID> --tier quick|thorough. Exit 0 held / 1 VIOLATION / 2 machinery failure. See DESIGN.md.",
    }
    for p in props:
        pid = p["id"]
        if pid in CLAIMS:
            c = CLAIMS[pid]
            m["checks"].append({
              "property_id": pid, "quick_cmd": f"./check {pid} --tier quick", "thorough_cmd": f"./check {pid} --tier thorough",
              "evidence_file": f"/verif/evidence/{pid}.json", "replay_cmd_template": f"./check {pid} --replay {{path}}",
              "engine": "tlc", "level_claimed": {"category": "model_checking", "text": c["text"], "design_ref": c["ref"]},
              "level_note": c["note"], "technique": c["technique"]})
        else:
            m["not_applicable"].append({"property_id": pid, "reason": PENDING})
    json.dump(m, open(os.path.join(V, "MANIFEST.json"), "w"), indent=1)
    print("claimed:", sorted(CLAIMS))
main()
