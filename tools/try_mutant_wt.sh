#!/bin/sh
# tools/try_mutant_wt.sh <patch.diff> <ID> [<ID>...]  - like try_mutant.sh, but applies the change to a scratch worktree of /repo's
# HEAD (so /repo stays untouched and other runs are not disturbed) and points the checks at it with VERIF_REPO.
P="$1"; shift
WT=$(mktemp -d /tmp/mutwt-XXXXXX); rmdir "$WT"
git -C /repo worktree add -q --detach "$WT" HEAD || exit 2
git -C "$WT" apply "$P" || { echo "patch does not apply"; git -C /repo worktree remove --force "$WT"; exit 2; }
cd /verif || exit 2
export VERIF_EVIDENCE_DIR=$(mktemp -d /tmp/mut-evidence-XXXXXX)
for ID in "$@"; do
  OUT=$(VERIF_REPO="$WT" ./check "$ID" --tier quick 2>&1); RC=$?
  echo "== $ID rc=$RC"; echo "$OUT" | grep -E "^VIOLATION|held on|MACHINERY|violating" | cut -c1-300 | head -4
done
git -C /repo worktree remove --force "$WT"
