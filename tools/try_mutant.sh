#!/bin/sh
# tools/try_mutant.sh <patch.diff> <ID> [<ID>...]  - apply a seeded change to /repo, run the quick checks, undo it.
P="$1"; shift
cd /verif || exit 2
export VERIF_EVIDENCE_DIR=$(mktemp -d /tmp/mut-evidence-XXXXXX)
git -C /repo diff --quiet || { echo "repo dirty"; exit 2; }
git -C /repo apply "$P" || { echo "patch does not apply"; exit 2; }
for ID in "$@"; do
  OUT=$(./check "$ID" --tier quick 2>&1); RC=$?
  echo "== $ID rc=$RC"; echo "$OUT" | grep -E "^VIOLATION|^KNOWN|held on|MACHINERY|violating" | cut -c1-400 | head -8
done
git -C /repo checkout -- .
git -C /repo status --short | head -3
