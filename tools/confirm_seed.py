#!/usr/bin/env python3
"""tools/confirm_seed.py <name> <property> <patch> <demo> <needs...>  - confirm a seeded change in a scratch worktree
of /repo's HEAD (applies, suite passes, demo fails with it and passes without it), run the property's quick check
against it in /repo, and file it under /verif/seeded/<name>/."""
import json, os, shutil, subprocess, sys, tempfile

name, prop, patch, demo = sys.argv[1:5]
needs = " ".join(sys.argv[5:])
checks = prop.split(",")
wt = tempfile.mkdtemp(prefix="seedwt-", dir="/tmp")
os.rmdir(wt)
run = lambda cmd, **kw: subprocess.run(cmd, shell=True, capture_output=True, text=True, **kw)
meta = {"name": name, "breaks": checks[0], "needs": needs, "ran": []}
try:
    assert run(f"git -C /repo worktree add -q --detach {wt} HEAD").returncode == 0
    r0 = run(f"/venv/bin/python {demo} {wt}", cwd=wt); meta["ran"].append(f"demo on clean HEAD: exit {r0.returncode}")
    a = run(f"git -C {wt} apply {patch}"); assert a.returncode == 0, "patch does not apply: " + a.stderr
    t = run("/venv/bin/python -m pytest -q -p no:cacheprovider 2>&1 | tail -1", cwd=wt); meta["ran"].append("suite with change: " + t.stdout.strip())
    r1 = run(f"/venv/bin/python {demo} {wt}", cwd=wt); meta["ran"].append(f"demo with change: exit {r1.returncode}")
    meta["confirmed"] = (r0.returncode == 0 and r1.returncode != 0 and " passed" in t.stdout and "failed" not in t.stdout)
finally:
    run(f"git -C /repo worktree remove --force {wt}")
det = {}
assert run("git -C /repo diff --quiet").returncode == 0
assert run(f"git -C /repo apply {patch}").returncode == 0
try:
    for c in checks:
        r = run(f"VERIF_EVIDENCE_DIR=/tmp/mut-evidence-confirm ./check {c} --tier quick", cwd="/verif")
        det[c] = {"exit": r.returncode, "violations": r.stdout.count("\nVIOLATION") + r.stdout.startswith("VIOLATION")}
finally:
    run("git -C /repo checkout -- .")
meta["detected_by"] = {c: (d["exit"] == 1) for c, d in det.items()}
meta["ran"].append("quick checks against the change in /repo: " + json.dumps(det))
d = f"/verif/seeded/{name}"
os.makedirs(d, exist_ok=True)
shutil.copy(patch, f"{d}/patch.diff"); shutil.copy(demo, f"{d}/demo.py")
json.dump(meta, open(f"{d}/meta.json", "w"), indent=1)
print(name, "confirmed" if meta.get("confirmed") else "NOT CONFIRMED", meta["detected_by"])
