#!/bin/sh
# tools/seedsweep.sh "<ids>" "<seeds>" [tier]  - run checks over several seeds, print one line per run
cd /verif || exit 2
for ID in $1; do for S in $2; do
  OUT=$(VERIF_SEED=$S ./check $ID --tier ${3:-quick} 2>&1); RC=$?
  echo "$ID seed=$S rc=$RC $(echo "$OUT" | grep -E "held on|violating|MACHINERY" | tail -1 | cut -c1-200)"
  [ $RC -ne 0 ] && echo "$OUT" | grep -A1 "^VIOLATION" | head -6 | cut -c1-600
done; done
