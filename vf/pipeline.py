"""Stage snapshots of ExplorerScriptSsbCompiler.compile(): the labelled-op program as the compile handlers deliver
it (S0), after strip_last_label (S1), after LabelFinalizer (S2, with its label -> offset table) and after
OpsLabelJumpToRemover (S3 = routine_ops).  Recorded by substituting the three names in the namespace of
explorerscript.ssb_converting.ssb_compiler for the duration of one compile() - nothing in /repo is edited.
Decided by spec/CompilerPipeline.tla."""
from __future__ import annotations

import contextlib

from vf import common, canon


def _rec(op) -> dict:
    from explorerscript.ssb_converting import ssb_special_ops as sp
    if isinstance(op, sp.SsbLabel):
        return {"k": "label", "lbl": op.id, "off": -1, "op": "@", "ps": [], "tgt": -1}
    if isinstance(op, sp.SsbLabelJump):
        r = op.root
        return {"k": "ljump", "lbl": op.label.id if op.label is not None else -1, "off": r.offset, "op": r.op_code.name,
                "ps": [canon.tok(p) for p in r.params], "tgt": -1}
    o = canon.op_rec(op, jump_last=True)
    return {"k": "op", "lbl": -1, "off": o["off"], "op": o["op"], "ps": o["ps"], "tgt": o["tgt"]}


def _snap(routines) -> list[list[dict]]:
    return [[_rec(o) for o in r] for r in routines]


def _snap_binary(routines) -> list[list[dict]]:
    """ops as a binary reader delivers them (jump target at its table index)"""
    out = []
    for r in routines:
        rr = []
        for op in r:
            o = canon.op_rec(op, jump_last=False)
            rr.append({"k": "op", "lbl": -1, "off": o["off"], "op": o["op"], "ps": o["ps"], "tgt": o["tgt"]})
        out.append(rr)
    return out


def staged_resolve(case: dict) -> dict:
    """{D0, D1}: input and output of OpsLabelJumpToResolver inside ExplorerScriptSsbDecompiler.convert() for the routine set
    `case` = {routines, infos} (records); recorded by substituting the name in ssb_decompiler's namespace for one call."""
    from explorerscript.ssb_converting import ssb_decompiler as m
    from explorerscript.ssb_converting.ssb_data_types import DungeonModeConstants
    from vf import decomp
    orig = m.OpsLabelJumpToResolver
    sink: dict = {}

    class Resolver(orig):
        def __init__(self, routines):
            sink["D0"] = _snap_binary(routines)
            super().__init__(routines)

        def __iter__(self):
            out = list(super().__iter__())
            sink["D1"] = _snap(out)
            return iter(out)
    m.OpsLabelJumpToResolver = Resolver
    rec = {"status": "ok", "err": "", "routines": case["routines"]}
    try:
        infos, coros = canon.build_infos(case["infos"])
        m.ExplorerScriptSsbDecompiler(infos, canon.build_ops(case["routines"]), coros, common.PPL, DungeonModeConstants(*decomp.DMODE)).convert()
    except Exception as ex:  # noqa
        rec["status"], rec["err"] = type(ex).__name__, str(ex)[:200]
    finally:
        m.OpsLabelJumpToResolver = orig
    rec.update(sink)
    rec["complete"] = "D0" in sink and "D1" in sink
    return rec


def tlc_check_resolver(recs: list[dict], tag: str) -> tuple[dict, dict]:
    import json
    import os
    out: dict = {}
    tot = {"distinct": 0, "states": 0}
    B = 3000
    for k in range(0, len(recs), B):
        path = os.path.join(common.scratch(), f"resolver-{tag}-{k}.json")
        with open(path, "w") as fh:
            json.dump([{"D0": r["D0"], "D1": r["D1"]} for r in recs[k:k + B]], fh)
        res = common.run_tlc("CompilerPipeline", "CompilerPipeline_resolver.cfg", {"CASES_FILE": path})
        os.unlink(path)
        tot["distinct"] += res["distinct"]
        tot["states"] += res["states"]
        if res["inv_errors"] and not res["viols"]:
            raise common.MachineryError("invariant violation without VIOL line:\n" + res["out"][-3000:])
        for v in res["viols"]:
            out.setdefault(k + int(v[0]) - 1, []).append(common.tla_unquote(v[1]))
    return out, tot


@contextlib.contextmanager
def recording(sink: dict):
    from explorerscript.ssb_converting import ssb_compiler as m
    orig = (m.strip_last_label, m.LabelFinalizer, m.OpsLabelJumpToRemover)

    def strip(routine_ops):
        sink["S0"] = _snap(routine_ops)          # strip_last_label edits the lists it is given
        out = orig[0](routine_ops)
        sink["S1"] = _snap(out)
        return out

    class Finalizer(orig[1]):
        def __init__(self, routines):
            sink["S1in"] = _snap(routines)
            super().__init__(routines)
            sink["S2"] = _snap(self.routines)
            sink["label_offsets"] = sorted([int(k), int(v)] for k, v in self.label_offsets.items())

    class Remover(orig[2]):
        def __init__(self, routines, label_offsets):
            sink["S2in"] = _snap(routines)         # the remover appends the target to the root op's parameter list
            super().__init__(routines, label_offsets)
            sink["S3"] = _snap(self.routines)

    m.strip_last_label, m.LabelFinalizer, m.OpsLabelJumpToRemover = strip, Finalizer, Remover
    try:
        yield
    finally:
        m.strip_last_label, m.LabelFinalizer, m.OpsLabelJumpToRemover = orig


def staged_compile(src: str) -> dict:
    """{src, status, err, S0..S3, label_offsets, final (routine_ops as the caller sees them)}"""
    from explorerscript.ssb_converting.ssb_compiler import ExplorerScriptSsbCompiler
    sink: dict = {}
    out = {"src": src, "status": "ok", "err": ""}
    try:
        with recording(sink):
            c = ExplorerScriptSsbCompiler(common.PPL, [])
            c.compile(src, "/vf-nonexistent/main.exps")
        out["final"] = _snap(c.routine_ops)
    except Exception as ex:  # noqa
        out["status"] = type(ex).__name__
        out["err"] = str(ex)[:300]
    out.update(sink)
    out["complete"] = all(k in sink for k in ("S0", "S1", "S1in", "S2", "S2in", "S3", "label_offsets")) and "final" in out
    return out


FIELDS = ("S0", "S1", "S1in", "S2", "S2in", "S3", "final", "label_offsets")


def tlc_check(recs: list[dict], tag: str) -> tuple[dict, dict]:
    """TLC: CompilerPipeline on complete stage records.  Returns ({record index: [(verdict, stage pair)]}, tlc result summary)."""
    import json
    import os
    out: dict = {}
    tot = {"distinct": 0, "states": 0}
    B = 2500
    for k in range(0, len(recs), B):
        path = os.path.join(common.scratch(), f"pipeline-{tag}-{k}.json")
        with open(path, "w") as fh:
            json.dump([{f: r[f] for f in FIELDS} for r in recs[k:k + B]], fh)
        res = common.run_tlc("CompilerPipeline", "CompilerPipeline.cfg", {"CASES_FILE": path})
        os.unlink(path)
        tot["distinct"] += res["distinct"]
        tot["states"] += res["states"]
        if res["inv_errors"] and not res["viols"]:
            raise common.MachineryError("invariant violation without VIOL line:\n" + res["out"][-3000:])
        for v in res["viols"]:
            out.setdefault(k + int(v[0]) - 1, []).append((common.tla_unquote(v[1]), f"{v[2]}->{v[3]}"))
    return out, tot


PASS_NAME = {"1->2": "strip_last_label", "2->3": "LabelFinalizer", "3->4": "OpsLabelJumpToRemover", "1->4": "all passes", "0->0": "hand-over contract"}


def self_test(good: list[dict]) -> int:
    """binding: a retargeted conditional jump in the final stage, a label left at the end of a routine after strip_last_label, and a
    wrong entry of the label table must each be rejected, and blamed on the right pass"""
    import json
    muts, want = [], []
    for r in good:
        m = json.loads(json.dumps({f: r[f] for f in FIELDS}))
        done = False
        for rt in m["S3"]:
            tests = [o for o in rt if o["tgt"] != -1 and o["op"] != "Jump"]
            offs = [o["off"] for o in rt]
            if tests and len(offs) >= 3:
                o = tests[0]
                nxt = [x for x in offs if x not in (o["tgt"],) and x > o["off"] + 1]
                if nxt:
                    o["tgt"] = nxt[-1]
                    o["ps"] = o["ps"] + ["i:424242"]
                    done = True
                    break
        if done:
            m["final"] = m["S3"]
            muts.append(m); want.append(("mismatch", "3->4"))
        m = json.loads(json.dumps({f: r[f] for f in FIELDS}))
        if m["S1"] and m["S1"][0]:
            m["S1"][0].append({"k": "label", "lbl": 987654, "off": -1, "op": "@", "ps": [], "tgt": -1})
            m["S1in"] = m["S1"]
            muts.append(m); want.append(("trailing-label-after-strip", "0->0"))
        m = json.loads(json.dumps({f: r[f] for f in FIELDS}))
        if m["label_offsets"] and any(o["k"] == "label" for rt in m["S2"] for o in rt):
            lbl = next(o["lbl"] for rt in m["S2"] for o in rt if o["k"] == "label")
            m["label_offsets"] = [[a, b + 1000] if a == lbl else [a, b] for a, b in m["label_offsets"]]
            muts.append(m); want.append(("label-table", "0->0"))
    got, _ = tlc_check(muts, "selftest")
    for i, w in enumerate(want):
        if w not in got.get(i, []):
            raise common.MachineryError(f"pipeline self-test: corruption {w} not reported (got {got.get(i)})")
    return len(muts)
