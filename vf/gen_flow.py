"""Well-formed SSB routine sets (the domain of C02 / C06 / C09): exhaustively enumerated small flow
graphs, compiler-shaped sets (renumbered compile results), and re-laid-out variants of the same flow
graphs.  `well_formed` mirrors the predicate WellFormed of spec/ByteEquiv.tla; TLC re-checks every
input, so a generator bug shows up as a machinery failure, not as a verdict."""
from __future__ import annotations

import itertools
import random

from vf.gen_ssb import JUMP_AR, rand_param

STOP = {"Return", "End", "Hold", "JumpCommon", "Destroy"}
CTX = {"lives", "object", "performer"}
TESTS = set(JUMP_AR) - {"Jump"}
SWITCHES = ["Switch", "SwitchScenario", "SwitchRandom", "SwitchSector", "SwitchDungeonMode", "SwitchScenarioLevel",
            "ProcessSpecial", "message_Menu", "message_SwitchMenu", "message_SwitchMenu2", "main_EnterAdventure"]


def flat(routines):
    return [o for r in routines for o in r]


def well_formed(routines: list[list[dict]]) -> bool:
    ops = flat(routines)
    if not ops:
        return False
    offs = [o["off"] for o in ops]
    if any(b <= a for a, b in zip(offs, offs[1:])):
        return False
    pos = {}
    for ri, r in enumerate(routines):
        for i, o in enumerate(r):
            pos[o["off"]] = (ri, i)
    for o in ops:
        if o["op"] in JUMP_AR:
            if o["tgt"] not in pos:
                return False
    # no jump-only cycle
    for o in ops:
        if o["op"] == "Jump":
            seen = set()
            cur = o
            while cur["op"] == "Jump":
                if cur["off"] in seen:
                    return False
                seen.add(cur["off"])
                ri, i = pos[cur["tgt"]]
                cur = routines[ri][i]
    # every path from every routine start (and from every op: unreachable ops are allowed but must not fall off
    # when reached through a jump) ends in a stop op
    for ri, r in enumerate(routines):
        for i, o in enumerate(r):
            name = o["op"]
            prev_ctx = i > 0 and r[i - 1]["op"] in CTX
            falls = name != "Jump" and not (name in STOP and not prev_ctx)
            if falls and i + 1 >= len(r):
                return False
            if name in CTX and i + 1 >= len(r):
                return False
    return True


def exhaustive_flows(max_ops: int, two_routines: bool = True) -> list[dict]:
    """all well-formed routine sets with <= max_ops ops over {plain, Branch, Jump, Call, Return, Hold, Switch, Case, lives}"""
    kinds = ["a", "Branch", "Jump", "Call", "Return", "Switch", "Case", "lives", "End"]
    out = []
    for n in range(1, max_ops + 1):
        for seq in itertools.product(kinds, repeat=n):
            if seq[-1] not in ("Return", "Jump", "End"):
                continue
            ok = True
            for i, k in enumerate(seq):
                if k == "Case" and (i == 0 or seq[i - 1] not in ("Switch", "Case")):
                    ok = False
                if k == "lives" and (i + 1 >= n or seq[i + 1] != "a"):
                    ok = False
                if k == "End" and i != n - 1 and n > 3:
                    ok = False  # keep the alphabet small: End only as last op of larger sets
            if not ok:
                continue
            jidx = [i for i, k in enumerate(seq) if k in ("Branch", "Jump", "Call", "Case")]
            for tg in itertools.product(range(n), repeat=len(jidx)):
                ops = []
                for i, k in enumerate(seq):
                    if k == "a":
                        o = {"off": i, "op": f"a{i}", "ps": [f"i:{i}"], "tgt": -1}
                    elif k == "Branch":
                        o = {"off": i, "op": "Branch", "ps": ["c:$V", f"i:{i}"], "tgt": -2}
                    elif k == "Case":
                        o = {"off": i, "op": "Case", "ps": [f"i:{i}"], "tgt": -2}
                    elif k == "Switch":
                        o = {"off": i, "op": "Switch", "ps": ["c:$S"], "tgt": -1}
                    elif k == "lives":
                        o = {"off": i, "op": "lives", "ps": ["c:ACTOR_A"], "tgt": -1}
                    elif k in ("Jump", "Call"):
                        o = {"off": i, "op": k, "ps": [], "tgt": -2}
                    else:
                        o = {"off": i, "op": k, "ps": [], "tgt": -1}
                    o["pseudo"] = False
                    ops.append(o)
                for j, i in enumerate(jidx):
                    ops[i]["tgt"] = tg[j]
                splits = [n] + ([s for s in range(1, n)] if two_routines and n >= 2 else [])
                for s in splits:
                    rs = [ops[:s]] + ([ops[s:]] if s < n else [])
                    if well_formed(rs):
                        infos = [{"kind": "GENERIC", "target": "i:0", "coro": ""}] + \
                                ([{"kind": "ACTOR", "target": "c:ACTOR_X", "coro": ""}] if s < n else [])
                        out.append({"routines": [[dict(o) for o in r] for r in rs], "infos": infos})
    return out


def sanitise_dmode(routines: list[list[dict]]) -> None:
    """the decompiler input domain: the dungeon-mode value of flag_SetDungeonMode is a number 0..3"""
    for r in routines:
        under = False
        for o in r:
            if o["op"] == "flag_SetDungeonMode" and len(o["ps"]) == 2 and o["ps"][1] not in ("i:0", "i:1", "i:2", "i:3"):
                o["ps"] = [o["ps"][0], "i:%d" % (len(o["ps"][1]) % 4)]
            if o["op"] == "SwitchDungeonMode":
                under = True
            elif o["op"] == "Case" and under:
                if o["ps"] and o["ps"][0] not in ("i:0", "i:1", "i:2", "i:3"):
                    o["ps"] = ["i:%d" % (sum(map(ord, o["ps"][0])) % 4)]
            elif not o["op"].startswith("Case"):
                under = False


def renumber(routines: list[list[dict]], rng: random.Random | None = None, gaps: bool = False) -> list[list[dict]]:
    """offsets as a binary reader numbers them: strictly increasing in layout order"""
    new = {}
    cur = 0
    for r in routines:
        for o in r:
            new[o["off"]] = cur
            cur += 1 if not (gaps and rng) else rng.choice([1, 1, 2, 3])
    out = []
    for r in routines:
        rr = []
        for o in r:
            o2 = dict(o, off=new[o["off"]], pseudo=False)
            if o["tgt"] != -1:
                o2["tgt"] = new.get(o["tgt"], -99)
            rr.append(o2)
        out.append(rr)
    return out


def ends_closed(routines) -> bool:
    return all(r and (r[-1]["op"] in STOP or r[-1]["op"] == "Jump") and not (len(r) > 1 and r[-2]["op"] in CTX) for r in routines if r)


def relayout(routines: list[list[dict]], rng: random.Random) -> list[list[dict]]:
    """Another layout of the same flow graph: cut each routine at jump targets that follow a Jump / flow-ending
    op or a plain fall-through point, make the fall-through between pieces explicit with a Jump, shuffle the
    pieces (the entry piece stays first), drop jumps to the directly following piece, renumber.  Behaviour-
    preserving on the SSB machine; TLC re-checks that claim (the relaid-out set is model-checked against the
    original in ByteEquiv) before the set is used as a decompiler input."""
    nxt = max(o["off"] for o in flat(routines)) + 1000
    targets = {o["tgt"] for o in flat(routines) if o["tgt"] != -1}
    out = []
    for r in routines:
        if not r:
            out.append([])
            continue
        blocks, cur = [], []
        for i, o in enumerate(r):
            prev = r[i - 1]["op"] if i > 0 else ""
            cut_ok = prev not in CTX and not o["op"].startswith("Case") and o["op"] not in ("CaseText", "DefaultText")
            if cur and o["off"] in targets and cut_ok:
                blocks.append(cur)
                cur = []
            cur.append(dict(o))
            prev_ctx = prev in CTX
            if o["op"] == "Jump" or (o["op"] in STOP and not prev_ctx):
                blocks.append(cur)
                cur = []
        if cur:
            blocks.append(cur)
        for bi, b in enumerate(blocks):
            last = b[-1]
            prev_ctx = len(b) > 1 and b[-2]["op"] in CTX
            ends = last["op"] == "Jump" or (last["op"] in STOP and not prev_ctx)
            if not ends and bi + 1 < len(blocks):
                b.append({"off": nxt, "op": "Jump", "ps": [], "tgt": blocks[bi + 1][0]["off"], "pseudo": False, "_syn": True})
                nxt += 1
        head, rest = blocks[0], blocks[1:]
        rng.shuffle(rest)
        order = [head] + rest
        newr = []
        for bi, b in enumerate(order):
            newr.extend(b)
            if b[-1].get("_syn") and bi + 1 < len(order) and order[bi + 1][0]["off"] == b[-1]["tgt"]:
                newr.pop()
        out.append([{k: v for k, v in o.items() if k != "_syn"} for o in newr])
    return renumber(out, rng, gaps=rng.random() < 0.3)


def special_families() -> list[dict]:
    """every opcode family with special syntax once, unreachable trailing ops, message switches, ctx ops"""
    sets = []

    def mk(ops):
        rs = []
        for i, (name, ps, tgt) in enumerate(ops):
            rs.append({"off": i, "op": name, "ps": ps, "tgt": tgt, "pseudo": False})
        return {"routines": [rs], "infos": [{"kind": "GENERIC", "target": "i:0", "coro": ""}]}
    for name, ar in JUMP_AR.items():
        if name in ("Jump", "Call") or name.startswith("Case"):
            continue
        ps = {"BranchPerformance": ["i:3", "i:1"], "BranchDebug": ["i:1"], "BranchEdit": ["i:0"], "BranchVariation": ["i:1"],
              "BranchBit": ["c:$V", "i:3"], "Branch": ["c:$V", "i:2"], "BranchValue": ["c:$V", "i:4", "i:9"],
              "BranchVariable": ["c:$V", "i:5", "c:$W"], "BranchScenarioNow": ["c:$S", "i:3", "i:1"],
              "BranchScenarioNowAfter": ["c:$S", "i:3", "i:1"], "BranchScenarioNowBefore": ["c:$S", "i:3", "i:1"],
              "BranchScenarioAfter": ["c:$S", "i:3", "i:1"], "BranchScenarioBefore": ["c:$S", "i:3", "i:1"],
              "BranchSum": ["i:1", "i:2", "i:3"], "BranchExecuteSub": ["i:7"]}[name]
        sets.append(mk([("a", [], -1), (name, ps, 3), ("b", [], -1), ("c", [], -1), ("Return", [], -1)]))
        sets.append(mk([(name, ps, 2), ("Return", [], -1), ("b", [], -1), ("End", [], -1)]))
    for sw in SWITCHES:
        swps = [] if sw == "SwitchSector" else (["i:1", "i:2", "i:3"] if sw in ("ProcessSpecial",) else ["c:$S"])
        for cname, cps in [("Case", ["i:1"]), ("CaseValue", ["i:3", "i:7"]), ("CaseVariable", ["i:4", "c:$W"]),
                           ("CaseScenario", ["i:2", "i:5"]), ("CaseMenu", ["s:" + "Yes".encode().hex()]), ("CaseMenu2", ["i:4"])]:
            sets.append(mk([(sw, swps, -1), (cname, cps, 4), ("Case", ["i:2"] if sw == "SwitchDungeonMode" else ["i:9"], 6), ("Jump", [], 8), ("a", [], -1), ("Jump", [], 8),
                            ("b", [], -1), ("Jump", [], 8), ("c", [], -1), ("Return", [], -1)]))
    flags = [("flag_CalcBit", ["c:$V", "i:3", "i:1"]), ("flag_CalcValue", ["c:$V", "i:2", "i:5"]), ("flag_CalcVariable", ["c:$V", "i:1", "c:$W"]),
             ("flag_Clear", ["c:$V"]), ("flag_Initial", ["c:$V"]), ("flag_Set", ["c:$V", "i:4"]), ("flag_ResetDungeonResult", []),
             ("flag_ResetScenario", ["c:$S"]), ("flag_SetAdventureLog", ["i:3"]), ("flag_SetDungeonMode", ["i:5", "i:1"]),
             ("flag_SetDungeonMode", ["c:D_X", "i:3"]), ("flag_SetPerformance", ["i:3", "i:1"]), ("flag_SetScenario", ["c:$S", "i:1", "i:2"])]
    for f in flags:
        f = (f[0], f[1], -1)
        sets.append(mk([f, ("Return", [], -1)]))
        sets.append(mk([("lives", ["c:ACTOR_A"], -1), f, ("Hold", [], -1)]))
    for cx in ("lives", "object", "performer"):
        sets.append(mk([(cx, ["c:ID_X"], -1), ("a", ["i:1"], -1), ("Return", [], -1)]))
        sets.append(mk([(cx, ["i:3"], -1), ("a", ["i:1"], -1), (cx, ["i:4"], -1), ("b", [], -1), ("End", [], -1)]))
    # context ops with another number of parameters than the one the inline / with forms can express (a binary may hold anything)
    for cx in ("lives", "object", "performer"):
        sets.append(mk([(cx, ["c:ID_X", "i:2"], -1), ("a", ["i:1"], -1), ("Return", [], -1)]))
        sets.append(mk([(cx, [], -1), ("a", ["i:1"], -1), ("Return", [], -1)]))
        sets.append(mk([(cx, ["i:1", "i:2", "i:3"], -1), ("flag_Set", ["c:$V", "i:4"], -1), ("End", [], -1)]))
    hs = "s:" + "hi".encode().hex()
    ls = "l:english=" + "e".encode().hex() + ";french=" + "f".encode().hex()
    for sw in ("message_SwitchTalk", "message_SwitchMonologue"):
        sets.append(mk([(sw, ["c:$V"], -1), ("CaseText", ["i:1", hs], -1), ("CaseText", ["i:2", ls], -1), ("DefaultText", [hs], -1), ("Return", [], -1)]))
        sets.append(mk([(sw, ["i:3"], -1), ("DefaultText", [ls], -1), ("a", [], -1), ("Return", [], -1)]))
        sets.append(mk([(sw, ["i:3"], -1), ("CaseText", ["i:1", hs], -1), ("Hold", [], -1)]))
    # unreachable trailing ops
    sets.append(mk([("a", [], -1), ("Return", [], -1), ("b", [], -1), ("c", [], -1), ("Return", [], -1)]))
    sets.append(mk([("a", [], -1), ("Jump", [], 3), ("b", [], -1), ("Return", [], -1), ("End", [], -1)]))
    return sets


def random_flow(rng: random.Random, max_ops: int = 8) -> dict | None:
    """random well-formed routine set with arbitrary jump structure (possibly irreducible)"""
    nr = rng.choice([1, 1, 1, 2, 3])
    sizes = [rng.randint(1, max_ops) for _ in range(nr)]
    routines, off = [], 0
    for s in sizes:
        r = []
        i = 0
        while i < s:
            last = i == s - 1
            k = rng.choice(["Return", "Jump", "End", "Hold"]) if last else rng.choice(["a", "a", "a", "Branch", "Branch", "Jump", "Call", "Return", "Switch", "lives"])
            if k == "a":
                r.append({"off": off, "op": f"o{off}", "ps": [rand_param(rng)] if rng.random() < 0.5 else [], "tgt": -1})
            elif k == "Branch":
                nm = rng.choice(["Branch", "BranchValue", "BranchBit", "BranchDebug", "BranchPerformance", "BranchScenarioNow", "BranchVariable"])
                ps = {"Branch": ["c:$V", f"i:{off}"], "BranchValue": ["c:$V", f"i:{rng.randrange(11)}", f"i:{off}"], "BranchBit": ["c:$V", f"i:{off}"],
                      "BranchDebug": [f"i:{rng.randrange(2)}"], "BranchPerformance": [f"i:{off}", f"i:{rng.randrange(2)}"],
                      "BranchScenarioNow": ["c:$S", f"i:{off}", "i:1"], "BranchVariable": ["c:$V", f"i:{rng.randrange(11)}", "c:$W"]}[nm]
                r.append({"off": off, "op": nm, "ps": ps, "tgt": -2})
            elif k == "Switch":
                r.append({"off": off, "op": rng.choice(["Switch", "SwitchRandom", "SwitchScenario"]), "ps": ["c:$S"], "tgt": -1})
                nc = rng.randint(1, 3)
                for _ in range(nc):
                    if i + 1 < s - 1:
                        off += 1
                        i += 1
                        r.append({"off": off, "op": rng.choice(["Case", "CaseValue"]), "ps": [f"i:{off}"] if True else [], "tgt": -2})
                        if r[-1]["op"] == "CaseValue":
                            r[-1]["ps"] = [f"i:{rng.randrange(11)}", f"i:{off}"]
            elif k == "lives":
                if i + 1 < s - 1:
                    r.append({"off": off, "op": rng.choice(["lives", "object", "performer"]), "ps": ["c:ACTOR_Q"], "tgt": -1})
                    off += 1
                    i += 1
                    r.append({"off": off, "op": f"o{off}", "ps": [], "tgt": -1})
                else:
                    r.append({"off": off, "op": f"o{off}", "ps": [], "tgt": -1})
            elif k in ("Jump", "Call"):
                r.append({"off": off, "op": k, "ps": [], "tgt": -2})
            else:
                r.append({"off": off, "op": k, "ps": [], "tgt": -1})
            off += 1
            i += 1
        routines.append(r)
    ops = flat(routines)
    for ri, r in enumerate(routines):
        for o in r:
            o["pseudo"] = False
            if o["tgt"] == -2:
                pool = r if rng.random() < 0.85 else ops
                o["tgt"] = rng.choice(pool)["off"]
    if not well_formed(routines):
        return None
    kinds = ["GENERIC", "ACTOR", "OBJECT", "PERFORMER"]
    infos = []
    for i in range(nr):
        k = rng.choice(kinds)
        infos.append({"kind": k, "target": "i:0" if k == "GENERIC" else rng.choice(["i:2", "c:ACTOR_Z"]), "coro": ""})
    return {"routines": routines, "infos": infos}
