"""Generators of ExplorerScript programs (text).  A program is built as a small nested structure and
pretty-printed with a seed-dependent layout; the node table fed to TLC is obtained by parsing the
printed text (vf/parsetree.py), so generator and table cannot drift apart.

Statement forms (tuples):
 ('op', name, args, ctx|None)  ('asg', text)  ('with', kind, id, inner)  ('msw', which, x, [(val, str)], default|None)
 ('if', [(neg, [hdr...], body)...], els|None)  ('switch', hdr, [(casehdr|None, body)...])
 ('forever', body) ('while', neg, hdr, body) ('for', init, hdr, incr, body)
 ('jump', l) ('call', l) ('label', l) ('ctrl', kw) ('mcall', name, args)
"""
from __future__ import annotations

import random

ASSIGN_OPS = ["=", "-=", "+=", "*=", "/="]
COND_OPS = ["FALSE", "TRUE", "==", ">", "<", ">=", "<=", "!=", "&", "^", "&<<"]
SCN_OPS = ["==", "<", ">", "<=", ">="]
VARS = ["$V0", "$V1", "$SCENARIO_MAIN", "GV_X", "7"]
PPL = "$PERFORMANCE_PROGRESS_LIST"


class G:
    def __init__(self, rng: random.Random, max_depth: int = 3, allow_macros: list | None = None,
                 flat: bool = False, labels: bool = True, with_term: bool = True):
        self.rng = rng
        self.k = 0
        self.max_depth = max_depth
        self.macros = allow_macros or []  # [(name, nparams)]
        self.labels_defined: list[str] = []
        self.jumps: list[list] = []
        self.allow_labels = labels
        self.flat = flat
        self.lk = 0

    def n(self) -> int:
        self.k += 1
        return self.k

    # ---- atoms
    def arg(self, params: list[str] | None = None) -> str:
        r = self.rng
        c = r.randrange(10)
        if params and c < 3:
            return r.choice(params)
        if c < 5:
            return str(r.choice([0, 1, 2, 5, 10, -3, 255]))
        if c == 5:
            return r.choice(["ACTOR_PLAYER", "$SCENARIO_MAIN", "LEVEL_X"])
        if c == 6:
            return r.choice(["'hi'", '"two words"', "'x'"])
        if c == 7:
            return "{english='a', german=\"b\"}"
        if c == 8:
            return f"Position<'m{r.randrange(3)}', {r.randrange(40)}, {r.randrange(40)}{r.choice(['', '.5'])}>"
        return r.choice(["1.5", "-0.25", "12.0"])

    def op(self, params=None):
        r = self.rng
        args = [self.arg(params) for _ in range(r.choice([0, 1, 1, 2]))]
        ctx = None
        if r.random() < 0.08:
            ctx = (r.choice(["actor", "object", "performer"]), r.choice(["ACTOR_A", "3"]))
        return ("op", f"o{self.n()}", args, ctx)

    def asg(self, params=None):
        r = self.rng
        v = r.choice(VARS if not params else VARS + params)
        k = self.n()
        c = r.randrange(13)
        if c == 0:
            return ("asg", f"{v} = {k}")
        if c == 1:
            return ("asg", f"{v} {r.choice(ASSIGN_OPS[1:])} {k}")
        if c == 2:
            return ("asg", f"{v} {r.choice(ASSIGN_OPS)} value($V{k})")
        if c == 3:
            return ("asg", f"{v}[{k}] = {r.choice([0, 1])}")
        if c == 4:
            return ("asg", f"{PPL}[{k}] = {r.choice([0, 1])}")
        if c == 5:
            return ("asg", f"clear {v}")
        if c == 6:
            return ("asg", f"init {v}")
        if c == 7:
            return ("asg", f"reset scn({v})")
        if c == 8:
            return ("asg", "reset dungeon_result")
        if c == 9:
            return ("asg", f"adventure_log = {k}")
        if c == 10:
            return ("asg", f"dungeon_mode({k}) = {r.choice(['0', '1', '2', '3'] if self.flat else ['DMODE_OPEN', '2', 'X'])}")
        if c == 11:
            return ("asg", f"{v} = scn[{k}, {r.randrange(4)}]")
        return ("asg", f"{v} = {k}")

    def cond(self, params=None) -> str:
        r = self.rng
        v = r.choice(VARS if not params else VARS + params)
        k = self.n()
        c = r.randrange(12)
        if c < 3:
            return f"{v} == {k}"
        if c < 5:
            return f"{v} {r.choice(COND_OPS)} {k}"
        if c == 5:
            return f"{v} {r.choice(COND_OPS)} value($W{k})"
        if c == 6:
            return f"{v}[{k}]"
        if c == 7:
            return f"{r.choice(['', 'not '])}{PPL}[{k}]"
        if c == 8:
            return f"scn({v}) {r.choice(SCN_OPS)} [{k}, {r.randrange(5)}]"
        if c == 9:
            return f"{r.choice(['', 'not '])}{r.choice(['debug', 'edit', 'variation'])}"
        if c == 10:
            return r.choice([f"BranchSum({k}, 2, 3)", f"BranchExecuteSub({k})", f"Branch({k}, 2)"])
        return f"{v} != {k}"

    def swhdr(self, params=None) -> str:
        r = self.rng
        k = self.n()
        return r.choice([f"$SW{k}", f"scn($S{k})[0]", f"scn($S{k})[1]", f"random({k})", f"dungeon_mode(D{k})",
                         "sector()", f"ProcessSpecial({k}, 2, 3)", f"message_Menu({k})", f"$SW{k}"])

    def cshdr(self) -> str:
        r = self.rng
        k = self.n()
        return r.choice([f"{k}", f"C{k}", f"> {k}", f"== {k}", f"FALSE {k}", f"< value($V{k})", f'menu("m{k}")',
                         f"menu2({k})", f"{k}", f"!= {k}"])

    # ---- statements
    def plain(self, params=None):
        r = self.rng
        c = r.randrange(10)
        if c < 5:
            return self.op(params)
        if c < 8:
            return self.asg(params)
        if c == 8:
            inner = self.op(params) if r.random() < 0.6 else self.asg(params)
            if inner[0] == "op":
                inner = (inner[0], inner[1], inner[2], None)
            return ("with", r.choice(["actor", "object", "performer"]), r.choice(["ACTOR_B", "4", "$V0"]), inner)
        cases = [(str(self.n()), r.choice(["'t1'", "{english='e'}", '"t2"'])) for _ in range(r.randint(0, 3))]
        default = r.choice([None, "'dflt'", "{english='d'}"])
        return ("msw", r.choice(["message_SwitchTalk", "message_SwitchMonologue"]), r.choice(VARS), cases, default)

    def block(self, depth: int, in_loop: bool, in_case: bool, params=None, minlen: int = 0, maxlen: int = 3,
              may_end: bool = True) -> list:
        r = self.rng
        n = r.randint(minlen, maxlen)
        out = []
        for i in range(n):
            out.append(self.stmt(depth, in_loop, in_case, params))
        if may_end and r.random() < 0.25:
            out.append(self.ender(in_loop, in_case))
        return out

    def ender(self, in_loop: bool, in_case: bool):
        r = self.rng
        opts = [("ctrl", "return"), ("ctrl", "end"), ("ctrl", "hold")]
        if in_loop:
            opts += [("ctrl", "continue"), ("ctrl", "break_loop")] * 2
        if in_case:
            opts += [("ctrl", "break")] * 3
        if self.allow_labels:
            j = ["jump", None]
            self.jumps.append(j)
            opts.append(j)
        return r.choice(opts)

    def stmt(self, depth: int, in_loop: bool, in_case: bool, params=None):
        r = self.rng
        if depth >= self.max_depth:
            return self.plain(params)
        c = r.randrange(20)
        if c < 7:
            return self.plain(params)
        if c < 11:
            return self.if_(depth, in_loop, in_case, params)
        if c < 13:
            return self.switch(depth, in_loop, params)
        if c == 13:
            return ("forever", self.block(depth + 1, True, in_case, params))
        if c == 14:
            return ("while", r.random() < 0.4, self.cond(params), self.block(depth + 1, True, in_case, params))
        if c == 15:
            return ("for", self.asg(params) if r.random() < 0.7 else self.op(params), self.cond(params),
                    self.asg(params) if r.random() < 0.7 else self.op(params), self.block(depth + 1, True, in_case, params))
        if c == 16 and self.allow_labels:
            self.lk += 1
            name = f"L{self.lk}"
            self.labels_defined.append(name)
            return ("label", name)
        if c == 17 and self.allow_labels:
            j = [r.choice(["jump", "call", "call"]), None]
            self.jumps.append(j)
            return j
        if c == 18 and self.macros:
            name, np_ = r.choice(self.macros)
            return ("mcall", name, [self.arg(params) for _ in range(np_)])
        return self.plain(params)

    def if_(self, depth, in_loop, in_case, params=None):
        r = self.rng
        arms = []
        for _ in range(1 + r.choice([0, 0, 0, 1, 1, 2])):
            hs = [self.cond(params) for _ in range(r.choice([1, 1, 1, 2, 3]))]
            arms.append((r.random() < 0.35, hs, self.block(depth + 1, in_loop, in_case, params)))
        els = self.block(depth + 1, in_loop, in_case, params) if r.random() < 0.45 else None
        return ("if", arms, els)

    def switch(self, depth, in_loop, params=None):
        r = self.rng
        n = r.randint(0, 4)
        cases = []
        defpos = r.choice([None, None, 0, n // 2, n]) if True else None
        for i in range(n + 1):
            if defpos is not None and i == defpos:
                cases.append((None, self.block(depth + 1, in_loop, True, params, 0, 2)))
            if i < n:
                cases.append((self.cshdr(), self.block(depth + 1, in_loop, True, params, 0, 2)))
        # a switch must not end in an empty case
        if cases and not cases[-1][1]:
            cases[-1] = (cases[-1][0], [self.op(params)])
        return ("switch", self.swhdr(params), cases)

    def finish_jumps(self):
        for j in self.jumps:
            if self.labels_defined:
                j[1] = self.rng.choice(self.labels_defined)
            else:
                j[0], j[1] = "ctrl", "hold"


# ------------------------------------------------------------------------------------- printer

class Printer:
    def __init__(self, rng: random.Random | None = None, compact: float = 0.0):
        self.rng = rng
        self.compact = compact
        self.out: list[str] = []
        self.ind = 0
        self.fresh = True

    def nl(self):
        if self.rng is not None and self.rng.random() < self.compact:
            self.out.append(" ")
        else:
            self.out.append("\n" + "    " * self.ind)

    def w(self, s: str):
        self.out.append(s)

    def stmts(self, body: list):
        self.ind += 1
        for s in body:
            self.nl()
            self.stmt(s)
        self.ind -= 1
        self.nl()

    def simple(self, s) -> str:
        k = s[0]
        if k == "op":
            ctx = f"<{s[3][0]} {s[3][1]}>" if s[3] else ""
            return f"{s[1]}{ctx}({', '.join(s[2])})"
        if k == "asg":
            return s[1]
        if k == "ctrl":
            return s[1]
        if k in ("jump", "call"):
            return f"{k} @{s[1]}"
        if k == "label":
            return f"@{s[1]}"
        raise ValueError(k)

    def stmt(self, s):
        k = s[0]
        if k in ("op", "asg", "ctrl", "jump", "call", "label"):
            self.w(self.simple(s) + ";")
        elif k == "with":
            self.w(f"with ({s[1]} {s[2]}) {{ {self.simple(s[3])}; }}")
        elif k == "mcall":
            self.w(f"~{s[1]}({', '.join(s[2])});")
        elif k == "msw":
            self.w(f"{s[1]} ({s[2]}) {{")
            self.ind += 1
            for v, t in s[3]:
                self.nl()
                self.w(f"case {v}:")
                self.ind += 1
                self.nl()
                self.w(t)
                self.ind -= 1
            if s[4] is not None:
                self.nl()
                self.w("default:")
                self.ind += 1
                self.nl()
                self.w(s[4])
                self.ind -= 1
            self.ind -= 1
            self.nl()
            self.w("}")
        elif k == "if":
            for i, (neg, hs, body) in enumerate(s[1]):
                self.w(("if" if i == 0 else " elseif") + (" not" if neg else "") + " (" + " || ".join(hs) + ") {")
                self.stmts(body)
                self.w("}")
            if s[2] is not None:
                self.w(" else {")
                self.stmts(s[2])
                self.w("}")
        elif k == "switch":
            self.w(f"switch ({s[1]}) {{")
            self.ind += 1
            for h, body in s[2]:
                self.nl()
                self.w("default:" if h is None else f"case {h}:")
                self.ind += 1
                for b in body:
                    self.nl()
                    self.stmt(b)
                self.ind -= 1
            self.ind -= 1
            self.nl()
            self.w("}")
        elif k == "forever":
            self.w("forever {")
            self.stmts(s[1])
            self.w("}")
        elif k == "while":
            self.w("while" + (" not" if s[1] else "") + f" ({s[2]}) {{")
            self.stmts(s[3])
            self.w("}")
        elif k == "for":
            self.w(f"for ({self.simple(s[1])}; {s[2]}; {self.simple(s[3])};) {{")
            self.stmts(s[4])
            self.w("}")
        else:
            raise ValueError(k)

    def routine(self, header: str, body: list | None):
        self.w(header + " {")
        if body is None:
            self.w(" alias previous; }")
        else:
            self.stmts(body)
            self.w("}")
        self.out.append("\n")

    def text(self) -> str:
        return "".join(self.out)


ROUTINE_KINDS = ["def {i}", "def {i} for actor ACTOR_X{i}", "def {i} for object {i}", "def {i} for performer PERF",
                 "def {i} for_actor(OLD{i})"]


def print_program(routines: list[tuple[str, list | None]], macros: list[tuple[str, list[str], list]] = (),
                  imports: list[str] = (), rng: random.Random | None = None, compact: float = 0.0) -> str:
    p = Printer(rng, compact)
    for imp in imports:
        p.w(f'import "{imp}";\n')
    for name, params, body in macros:
        p.routine(f"macro {name}({', '.join(params)})", body)
    for header, body in routines:
        p.routine(header, body)
    return p.text()


def random_program(rng: random.Random, max_depth: int = 3, n_routines: int | None = None, coro: bool | None = None,
                   max_stmts: int = 4) -> str:
    g = G(rng, max_depth)
    nr = n_routines or rng.choice([1, 1, 2, 3])
    if coro is None:
        coro = rng.random() < 0.15
    routines = []
    for i in range(nr):
        if i > 0 and rng.random() < 0.1:
            routines.append((f"coro C{i}" if coro else rng.choice(ROUTINE_KINDS).format(i=i), None))
            continue
        body = g.block(0, False, False, None, 1, max_stmts, may_end=False)
        if rng.random() < 0.7:
            body.append(rng.choice([("ctrl", "return"), ("ctrl", "end"), ("ctrl", "hold")]))
        header = f"coro C{i}" if coro else rng.choice(ROUTINE_KINDS).format(i=i)
        routines.append((header, body))
    g.finish_jumps()
    return print_program(routines, rng=rng, compact=rng.choice([0.0, 0.0, 0.3]))


# ------------------------------------------------------------------------------------- C13 family

def flat_items(g: G, thorough: bool) -> list:
    """shapes of the flat structured family: plain statements, if-chains, break-terminated switches"""
    def plain():
        for _ in range(50):
            p = g.plain()
            if not (p[0] == "msw" and not p[3] and p[4] is None):   # a message switch has at least one text
                return p
        return g.op()

    def blk(n):
        return [plain() for _ in range(n)]
    items = [lambda: g.op(), lambda: g.asg(), plain]
    for neg in (False, True):
        for nh in (1, 2):
            for nb in (0, 1, 2):
                items.append(lambda neg=neg, nh=nh, nb=nb: ("if", [(neg, [g.cond() for _ in range(nh)], blk(nb))], None))
                items.append(lambda neg=neg, nh=nh, nb=nb: ("if", [(neg, [g.cond() for _ in range(nh)], blk(nb))], blk(1)))
                for neg2 in (False, True):
                    items.append(lambda neg=neg, nh=nh, nb=nb, neg2=neg2: ("if", [(neg, [g.cond() for _ in range(nh)], blk(nb)),
                                                                                    (neg2, [g.cond()], blk(1))], blk(1) if nb else None))
    items.append(lambda: ("if", [(False, [g.cond()], blk(1)), (False, [g.cond()], blk(1)), (True, [g.cond()], blk(2))], blk(1)))
    items.append(lambda: ("if", [(False, [g.cond()], blk(1))], []))
    # conditions of three and four || clauses, in the head and in an elseif; longer chains
    for neg in (False, True):
        for nh in (3, 4):
            items.append(lambda neg=neg, nh=nh: ("if", [(neg, [g.cond() for _ in range(nh)], blk(1))], None))
            items.append(lambda neg=neg, nh=nh: ("if", [(neg, [g.cond() for _ in range(nh)], blk(2))], blk(1)))
            items.append(lambda neg=neg, nh=nh: ("if", [(False, [g.cond()], blk(1)), (neg, [g.cond() for _ in range(nh)], blk(1))], blk(1)))
    items.append(lambda: ("if", [(False, [g.cond(), g.cond()], blk(1)), (True, [g.cond(), g.cond(), g.cond()], blk(2)), (False, [g.cond(), g.cond()], blk(0)),
                                 (False, [g.cond()], blk(1))], blk(2)))
    items.append(lambda: ("if", [(False, [g.cond()], blk(0)), (False, [g.cond()], blk(2))], blk(1)))
    items.append(lambda: ("if", [(False, [g.cond()], blk(2)), (False, [g.cond()], blk(0)), (False, [g.cond()], blk(1))], None))

    def sw(ncases, grouped, default, dbody=1, gdefault=0, gpos=0):
        """gdefault: 1 = `case X: default:` share a block, 2 = `default: case X:` share a block; at case position gpos"""
        def mk():
            cases = []
            hdr = g.swhdr()
            menu = g.rng.random() < 0.25
            if menu:
                hdr = g.rng.choice(["message_SwitchMenu(%d, 1)", "message_SwitchMenu2(%d)"]) % g.n()

            def ch():
                for _ in range(50):
                    h = g.cshdr()
                    if h.startswith("menu") == menu:
                        return h
                return f'menu("m{g.n()}")' if menu else str(g.n())
            for i in range(ncases):
                if grouped and i == 0:
                    cases.append((ch(), []))
                else:
                    cases.append((ch(), blk(1 + (i % 2)) + [("ctrl", "break")]))
            if default:
                cases.append((None, blk(dbody) + [("ctrl", "break")]))
            if gdefault:
                k = min(gpos, len(cases) - 1)
                h, body = cases[k]
                cases[k:k + 1] = [(h, []), (None, body)] if gdefault == 1 else [(None, []), (h, body)]
            return ("switch", hdr, cases)
        return mk
    for nc in (1, 2, 3):
        for grouped in (False, True):
            if grouped and nc == 1:
                continue
            for default in (False, True):
                items.append(sw(nc, grouped, default))
    items.append(sw(2, False, True, 0))
    # default sharing a block with a case label, first / middle / last in the switch
    for gd in (1, 2):
        for nc, gpos in ((1, 0), (2, 0), (2, 1), (3, 1), (3, 2)):
            items.append(sw(nc, False, False, 1, gd, gpos))
    return items


def flat_family(thorough: bool) -> list[str]:
    rng = random.Random(13)
    g = G(rng, 0, labels=False, flat=True)
    items = flat_items(g, thorough)
    progs = []
    terms = [("ctrl", "return"), ("ctrl", "end"), ("ctrl", "hold")]
    for i, a in enumerate(items):
        progs.append(print_program([("def 0", [a(), terms[i % 3]])]))
        progs.append(print_program([("def 0", [g.op(), a(), g.op(), terms[(i + 1) % 3]])]))
    step = 1 if thorough else 3
    for i, a in enumerate(items):
        for j, b in enumerate(items):
            if (i + j) % step:
                continue
            progs.append(print_program([("def 0", [a(), b(), terms[(i + j) % 3]])]))
    if thorough:
        for i, a in enumerate(items[::3]):
            for j, b in enumerate(items[::3]):
                for k, c in enumerate(items[::4]):
                    progs.append(print_program([("def 0", [a(), b(), c(), terms[(i + j + k) % 3]])]))
    return progs


def flat_random(rng: random.Random, max_items: int = 8) -> str:
    g = G(rng, 0, labels=False, flat=True)
    items = flat_items(g, True)
    routines = []
    for r in range(rng.choice([1, 1, 2])):
        body = [rng.choice(items)() for _ in range(rng.randint(1, max_items))]
        body.append(rng.choice([("ctrl", "return"), ("ctrl", "end"), ("ctrl", "hold")]))
        routines.append((rng.choice(ROUTINE_KINDS[:4]).format(i=r), body))
    return print_program(routines, rng=rng, compact=rng.choice([0.0, 0.2]))
