"""C03  Compiled output is a closed, uniquely addressed op list.  Spec: spec/Assembler.tla."""
from __future__ import annotations

import json
import os
import random

from vf import common, drive, gen_exps, enum_exps, gen_ssb, canon, gen_macros
from vf.pool import pmap


def compile_exps(src: str) -> dict:
    c = drive.compile_text(src)
    c["src"] = src
    c["lang"] = "exps"
    return c


def compile_tree(tree: dict) -> dict:
    c = gen_macros.compile_tree(tree)
    c["lang"] = "exps+macros"
    return c


def compile_ssbscript(case: dict) -> dict:
    """SsbScript text for a routine set (printed by the real SsbScript decompiler), compiled by the
    SsbScript compiler and - with the marker line - by the ExplorerScript compiler's delegation."""
    from explorerscript.ssb_script.ssb_converting.ssb_decompiler import SsbScriptSsbDecompiler
    from explorerscript.ssb_script.ssb_converting.ssb_compiler import SsbScriptSsbCompiler
    out = {"status": "ok", "err": "", "ops": [], "infos": [], "ninfos": 0, "ncoros": 0, "lang": "ssbscript", "src": ""}
    try:
        infos, coros = canon.build_infos(case["infos"])
        text, _ = SsbScriptSsbDecompiler(infos, canon.build_ops(case["routines"]), coros).convert()
        out["src"] = text
        if case.get("via_exps"):
            return dict(drive.compile_text("//?: is-ssb-script: true\n" + text), src=text, lang="ssbscript-via-exps")
        c = SsbScriptSsbCompiler()
        c.compile(text)
        out["ops"] = canon.ops_recs(c.routine_ops, jump_last=True)
        out["infos"] = canon.infos_recs(c.routine_infos, c.named_coroutines)
        out["ninfos"], out["ncoros"] = len(c.routine_infos), len(c.named_coroutines)
    except Exception as ex:
        out["status"], out["err"] = type(ex).__name__, str(ex)[:200]
    return out


def handwritten_ssbscript() -> list[str]:
    """SsbScript as a person writes it: labels at every place incl. routine ends and before the first op of the next
    routine, several labels in a row, unused labels, jumps between routines, alias routines"""
    import itertools
    out = []
    places = ["start0", "mid0", "end0", "start1", "end1"]
    for k in range(0, 4):
        for sel in itertools.combinations(places, k):
            for jumps in ([], ["Jump"], ["Branch", "Call"], ["EndJump"]):
                lab = lambda p: "".join(f" @l_{p}; @m_{p};" if p in sel and len(sel) == 1 else (f" @l_{p};" if p in sel else ""))
                tgts = [p for p in sel if not p.startswith("end")] or []
                if jumps == ["EndJump"]:
                    # jumps to labels at routine ends: the end of a non-last routine is the first op of the next one, a label behind the
                    # last op of the whole script denotes no op (the compiler has to reject the jump, not emit a dangling target)
                    tgts = [p for p in sel if p.startswith("end")]
                    jumps = ["Jump", "Branch"] if tgts else []
                js = ""
                for i, j in enumerate(jumps):
                    if tgts:
                        t = tgts[i % len(tgts)]
                        js += f" {j}({'$V, 1, ' if j == 'Branch' else ''}@l_{t});"
                src = (f"def 0 {{{lab('start0')} a();{js}{lab('mid0')} b();{lab('end0')} }}\n"
                       f"def 1 for actor X {{{lab('start1')} c(); Return();{lab('end1')} }}\n")
                out.append(src)
                out.append(src + "def 2 { alias previous; }\n")
    # routine ids that skip numbers or do not start at 0
    out += ["def 0 { a(); Return(); }\ndef 2 { b(); @l; Jump(@l); }\n", "def 3 { a(); Return(); }\n",
            "def 0 { a(); }\ndef 1 for actor X { b(); }\ndef 5 for object 2 { c(); Return(); }\n", "def 1 { @s; a(); Branch($V, 1, @s); Return(); }\n"]
    return out


def compile_handwritten_ssbscript(text: str) -> dict:
    from explorerscript.ssb_script.ssb_converting.ssb_compiler import SsbScriptSsbCompiler
    out = {"status": "ok", "err": "", "ops": [], "infos": [], "ninfos": 0, "ncoros": 0, "lang": "ssbscript-handwritten", "src": text}
    try:
        c = SsbScriptSsbCompiler()
        c.compile(text)
        out["ops"] = canon.ops_recs(c.routine_ops, jump_last=True)
        out["infos"] = canon.infos_recs(c.routine_infos, c.named_coroutines)
        out["ninfos"], out["ncoros"] = len(c.routine_infos), len(c.named_coroutines)
    except Exception as ex:
        out["status"], out["err"] = type(ex).__name__, str(ex)[:200]
    return out


def assemble(rep: common.Report, results: list[dict], tag: str) -> list[int]:
    cases = [{"ops": r["ops"], "nInfos": r["ninfos"], "nCoros": r["ncoros"],
              "infoKinds": [i["kind"] for i in r["infos"]], "checkArity": r.get("checkArity", True)} for r in results]
    bad = []
    B = 4000
    for k in range(0, len(cases), B):
        path = os.path.join(common.scratch(), f"c03-{tag}-{k}.json")
        with open(path, "w") as fh:
            json.dump(cases[k:k + B], fh)
        res = common.run_tlc("Assembler", "Assembler.cfg", {"CASES_FILE": path})
        os.unlink(path)
        rep.add_tlc(res)
        if res["inv_errors"] and not res["viols"]:
            raise common.MachineryError("invariant violation without VIOL line:\n" + res["out"][-3000:])
        for v in res["viols"]:
            cid = k + int(v[0]) - 1
            r = results[cid]
            rep.violation("assembler:" + common.tla_unquote(v[1]),
                          {"at": [int(v[2]), int(v[3])], "lang": r["lang"], "src": r["src"],
                           "ops": [[f"{o['off']}:{o['op']}({','.join(o['ps'])})->{o['tgt']}" for o in rt] for rt in r["ops"]]})
            bad.append(cid)
    return bad


def main() -> int:
    rep = common.Report("C03")
    rng = random.Random(common.seed() * 31 + 3)
    thorough = common.tier() == "thorough"
    srcs = enum_exps.c01_family(thorough)
    if not thorough:
        srcs = srcs[::3]
    n_enum = len(srcs)
    for _ in range(8000 if thorough else 1200):
        srcs.append(gen_exps.random_program(rng, max_depth=rng.choice([1, 2, 3, 3])))
    # routine tables of every layout the compiler accepts: ids that skip numbers or do not start at 0, alias routines, coroutines
    for ids in ([0, 2], [3], [0, 1, 5], [1], [0, 2, 4, 9], [2, 3], [0, 1, 2, 10]):
        for style in ("plain", "targets", "alias"):
            rts = []
            for j, i in enumerate(ids):
                hdr = f"def {i}" if style == "plain" or j == 0 else (f"def {i} for actor ACTOR_{i}" if j % 2 else f"def {i} for object {i}")
                body = "alias previous;" if style == "alias" and j == len(ids) - 1 and j > 0 else f"t{i}(); if ($V == {i}) {{ u{i}(); }} return;"
                rts.append(f"{hdr} {{ {body} }}")
            srcs.append("\n".join(rts) + "\n")
    srcs += ["coro A { a(); return; }\ncoro B { alias previous; }\ncoro C { alias previous; }\ncoro D { d(); if ($V == 1) { e(); } end; }\n",
             "def 0 { alias previous; }\ndef 1 { a(); return; }\n"]
    results = [r for r in pmap(compile_exps, srcs) if r.get("status") == "ok"]
    trees = gen_macros.family(rng, thorough)
    mres = [r for r in pmap(compile_tree, trees, chunk=4) if r.get("status") == "ok"]
    for r in mres:
        r["checkArity"] = True
    results += mres
    sets = gen_ssb.exhaustive_small_sets(3)[::4]
    for i in range(6000 if thorough else 1200):
        s = gen_ssb.arbitrary_set(rng)
        s["via_exps"] = i % 3 == 0
        sets.append(s)
    sres = [r for r in pmap(compile_ssbscript, sets) if r.get("status") == "ok"]
    sres += [r for r in pmap(compile_handwritten_ssbscript, handwritten_ssbscript()) if r.get("status") == "ok"]
    results += sres
    bad = set(assemble(rep, results, "main"))
    # binding self-test: duplicate an offset / dangle a jump / leave a pseudo op / misalign the tables
    muts = []
    for r in results:
        if len(muts) >= 8:
            break
        flat = [(a, b) for a, rt in enumerate(r["ops"]) for b, _ in enumerate(rt)]
        jumps = [(a, b) for a, b in flat if r["ops"][a][b]["tgt"] != -1]
        if len(flat) < 2 or not jumps or id(r) in bad:
            continue
        m1 = json.loads(json.dumps(r)); m1["ops"][flat[1][0]][flat[1][1]]["off"] = m1["ops"][flat[0][0]][flat[0][1]]["off"]; muts.append(m1)
        m2 = json.loads(json.dumps(r)); m2["ops"][jumps[0][0]][jumps[0][1]]["tgt"] = 99999; muts.append(m2)
        m3 = json.loads(json.dumps(r)); m3["ops"][flat[0][0]][flat[0][1]]["pseudo"] = True; muts.append(m3)
        m4 = json.loads(json.dumps(r)); m4["ncoros"] += 1; muts.append(m4)
    tmp = common.Report("C03")
    tmp.known = []
    got = set(assemble(tmp, muts, "selftest"))
    if len(got) != len(muts) or not muts:
        raise common.MachineryError(f"C03 self-test: {len(muts) - len(got)} of {len(muts)} corrupted results accepted")
    rep.extra["selftest_corrupted_rejected"] = len(muts)
    rep.traces = len(results)
    rep.evaluations = len(srcs) + len(trees) + len(sets)
    rep.nontrivial = len({json.dumps(r["ops"]) for r in results if any(o["tgt"] != -1 for rt in r["ops"] for o in rt)})
    rep.rule = (f"compile results of {n_enum} enumerated + random ExplorerScript programs, {len(trees)} macro/import trees, "
                f"{len(sets)} SsbScript texts (one third through the ExplorerScript compiler's is-ssb-script delegation); "
                "non-trivial = distinct result with >=1 jump-carrying op")
    rep.extra["results_by_language"] = {k: sum(1 for r in results if r["lang"] == k) for k in {r["lang"] for r in results}}
    rep.sample({"src": results[0]["src"], "ops": results[0]["ops"]})
    rep.sample({"src": sres[0]["src"], "ops": sres[0]["ops"]})
    rep.assumptions = ["SsbScript sources use label markers for every jump-carrying op (a literal integer in a jump slot is out of domain)"]
    return rep.finish()


if __name__ == "__main__":
    common.main_wrapper(main)
