"""C09  Decompile-time source map points at the statement printed for each op.  Spec: spec/DecompMap.tla."""
from __future__ import annotations

import json
import os
import random
import re

from vf import common, canon, decomp, gen_flow, gen_ssb, drive
from vf.c02 import flow_inputs, fmt
from vf.pool import pmap

WORD = re.compile(r"-?\d+(\.\d+)?|[A-Za-z_$§@~][A-Za-z0-9_$]*|\S")
ML = "s:" + canon.hx("line one\nline two\n  three")
ML2 = "l:english=" + canon.hx("a\nb") + ";french=" + canon.hx("c")


def first_word_of_token(t: str) -> str:
    if t.startswith("c:"):
        return t[2:]
    if t.startswith("i:"):
        return t[2:]
    if t.startswith("f:"):
        return t[2:]
    return "?"


def analyse(inp, text: str, sm_text: str, recomp_ops, recomp_sm_text) -> dict:
    """joins the recorded map with the emitted text (lexical only) and matches uniquely labelled ops of the input
    with ops of the recompiled result"""
    sm = json.loads(sm_text)
    lines = text.split("\n")
    by_off = {o["off"]: o for r in inp for o in r}
    entries = []
    for k, (ln, col) in sorted(((int(a), b) for a, b in sm["map"].items())):
        word, at_start = "<outside>", False
        if 0 <= ln < len(lines) and 0 <= col <= len(lines[ln]):
            m = WORD.match(lines[ln], col)
            word = m.group(0) if m else "<none>"
            if word.startswith("@"):
                word = "@label"
            before = lines[ln][:col]
            at_start = before.strip(" ") == "" or before.strip(" ") == "}"
        o = by_off.get(k)
        fpw = first_word_of_token(o["ps"][0]) if o and o["ps"] else "?"
        entries.append({"off": k, "line": ln, "col": col, "word": word, "atStart": at_start, "firstParamWord": fpw})
    matches = []
    if recomp_ops is not None and recomp_sm_text:
        rsm = json.loads(recomp_sm_text)["map"]
        lab = lambda o: o["op"] + "(" + ",".join(o["ps"]) + ")"
        cnt_in, cnt_re = {}, {}
        for r in inp:
            for o in r:
                cnt_in[lab(o)] = cnt_in.get(lab(o), 0) + 1
        for r in recomp_ops:
            for o in r:
                cnt_re[lab(o)] = cnt_re.get(lab(o), 0) + 1
        re_by = {lab(o): o for r in recomp_ops for o in r}
        for r in inp:
            for o in r:
                la = lab(o)
                if cnt_in[la] == 1 and cnt_re.get(la) == 1 and o["op"] != "Jump" and str(re_by[la]["off"]) in rsm:
                    matches.append({"off": o["off"], "reline": rsm[str(re_by[la]["off"])][0]})
    return {"inp": inp, "entries": entries, "matches": matches}


def exps_case(case: dict) -> dict:
    d = decomp.decompile_case(case)
    if d["status"] != "ok":
        return {"skip": d["status"]}
    rc = d["recomp"] if d["recomp"] and d["recomp"]["status"] == "ok" else None
    a = analyse(d["inp"], d["text"], d["sm"], rc["ops"] if rc else None, rc["sm"] if rc else None)
    a.update({"text": d["text"], "fallback": d["fallback"], "which": "exps-fallback" if d["fallback"] else "exps"})
    return a


def ssbs_case(case: dict) -> dict:
    from explorerscript.ssb_script.ssb_converting.ssb_decompiler import SsbScriptSsbDecompiler
    from explorerscript.ssb_script.ssb_converting.ssb_compiler import SsbScriptSsbCompiler
    infos, coros = canon.build_infos(case["infos"])
    text, sm = SsbScriptSsbDecompiler(infos, canon.build_ops(case["routines"]), coros).convert()
    c = SsbScriptSsbCompiler()
    c.compile(text)
    a = analyse(case["routines"], text, sm.serialize(), canon.ops_recs(c.routine_ops, True), c.source_map.serialize())
    a.update({"text": text, "fallback": False, "which": "ssbscript"})
    return a


def with_multiline(case: dict, rng: random.Random) -> dict:
    """same flow graph, but some plain ops carry multi-line string parameters"""
    c = json.loads(json.dumps(case))
    for r in c["routines"]:
        for o in r:
            if o["tgt"] == -1 and not o["op"].startswith(("flag_", "Switch", "message_", "Case", "Default")) and o["op"] not in gen_flow.STOP | gen_flow.CTX | set(gen_flow.SWITCHES) and rng.random() < 0.5:
                o["ps"] = [rng.choice([ML, ML2])] + o["ps"]
            if o["op"] in ("CaseText", "DefaultText") and rng.random() < 0.5:
                o["ps"][-1] = rng.choice([ML, ML2])
    c["origin"] = case.get("origin", "") + "+multiline"
    return c


def validate(rep, recs, tag):
    out = []
    B = 3000
    for k in range(0, len(recs), B):
        path = os.path.join(common.scratch(), f"c09-{tag}-{k}.json")
        with open(path, "w") as fh:
            json.dump([dict({f: r[f] for f in ("inp", "entries", "matches")}, plain=r.get("which", "exps") != "exps") for r in recs[k:k + B]], fh)
        res = common.run_tlc("DecompMap", "DecompMap.cfg", {"CASES_FILE": path})
        os.unlink(path)
        rep.add_tlc(res)
        if res["inv_errors"] and not res["viols"]:
            raise common.MachineryError("invariant violation without VIOL line:\n" + res["out"][-3000:])
        for v in res["viols"]:
            out.append((k + int(v[0]) - 1, common.tla_unquote(v[1]), int(v[2])))
    return out


def main() -> int:
    rep = common.Report("C09")
    rng = random.Random(common.seed() * 859 + 9)
    thorough = common.tier() == "thorough"
    cases, stats = flow_inputs(rng, thorough)
    if not thorough:
        cases = [c for c in cases if c["origin"] != "exhaustive"][::2] + [c for c in cases if c["origin"] == "exhaustive"][::6]
    # the recorded witness of the listed finding C09-entry-for-unprinted-jump-in-empty-block: if (a || b || c) { .. } else { } before a loop head
    mk = lambda ops: {"routines": [[dict(o, off=i, pseudo=False) for i, o in enumerate(ops)]], "infos": [{"kind": "GENERIC", "target": "i:0", "coro": ""}], "origin": "finding-witness"}
    br = lambda k, t: {"op": "Branch", "ps": ["c:$V", f"i:{k}"], "tgt": t}
    pl = lambda n: {"op": n, "ps": [], "tgt": -1}
    cases.append(mk([{"op": "BranchVariable", "ps": ["c:$S", "i:10", "c:$W"], "tgt": 4}, br(2, 4), br(3, 4), {"op": "Jump", "ps": [], "tgt": 7},
                     pl("a"), pl("b"), pl("c"), pl("d"), {"op": "Jump", "ps": [], "tgt": 7}]))
    frng = random.Random(99)
    cases += [with_multiline(c, frng) for c in cases if c["origin"] in ("compiled", "special", "compiled-seeded")][::3]
    # inputs of the shapes on which the structured decompiler is known to print other code than the input (C02's
    # listed findings) have no meaningful 'statement printed for the op'; they stay in C09 only through the fallback /
    # SsbScript paths
    from vf import shapes
    STRUCT = {"call", "xroutine", "selftarget", "spin", "twoback", "orphancase", "entryjumptarget"}
    n_before = len(cases)
    cases = [c for c in cases if not (set(shapes.tags(c["routines"])) & STRUCT)]
    rep.extra["skipped_c02_finding_shapes"] = n_before - len(cases)
    # forward `call @label` in compiler-shaped programs is decompiled correctly (the listed call finding concerns backward calls and calls
    # into jump chains): a few such programs stay in, so that the `call` statement's entry is looked at
    for src in ["def 0 { a(); call @l; b(); return; @l; c(); return; }", "def 0 { a(); if ($V == 1) { call @l; } b(); end; @l; c(); return; }",
                "def 0 { x(); return; }\ndef 1 for actor A { a('line one\\nline two'); call @m; b(); call @m; hold; @m; c(); return; }",
                "def 0 { switch ($S) { case 1: call @l; break; default: d(); } e(); end; @l; f(); return; }"]:
        cc = drive.compile_text(src)
        if cc["status"] != "ok":
            raise common.MachineryError("call program rejected: " + cc["err"])
        rs_ = gen_flow.renumber(cc["ops"])
        cases.append({"routines": rs_, "infos": cc["infos"], "origin": "call-forward"})
    recs = []
    for c, r in zip(cases, pmap(exps_case, cases, limit=10.0)):
        if r.get("_error"):
            raise common.MachineryError("harness error: " + r["_error"])
        if r.get("_timeout") or r.get("skip"):
            continue
        r["origin"] = c.get("origin", "")
        recs.append(r)
    sets = [gen_ssb.arbitrary_set(rng) for _ in range(800 if not thorough else 6000)]
    for c, r in zip(sets, pmap(ssbs_case, sets)):
        if r.get("_error"):
            raise common.MachineryError("harness error: " + r["_error"])
        if r.get("_timeout"):
            continue
        r["origin"] = "arbitrary"
        recs.append(r)
    from vf import shapes
    for i, kind, k in validate(rep, recs, "main"):
        r = recs[i]
        e = r["entries"][k - 1] if 0 < k <= len(r["entries"]) else None
        lines = r["text"].split("\n")
        # shape fact for the findings file (not a verdict): the entry lies on the line of a closing brace, behind its indentation - where the
        # next statement of the block would have been written (end of a block, or a block that was printed empty)
        at_closing_brace = bool(e and 0 < e["line"] < len(lines) and lines[e["line"]].strip().startswith("}")
                                and e["col"] > len(lines[e["line"]]) - len(lines[e["line"]].lstrip(" ")))
        rep.violation("decompile-map:" + kind, {"which": r["which"], "input": fmt(r["inp"]), "text": r["text"][:2500], "entry": e, "origin": r["origin"],
                                                "at_closing_brace": at_closing_brace,
                                                "tags": shapes.tags(r["inp"]),
                                                "op": next((o["op"] for rt in r["inp"] for o in rt if e and o["off"] == e["off"]), None)})
    good = [r for r in recs if r["entries"] and r["matches"] and len(r["entries"]) >= 3][:4]
    muts = []
    for r in good:
        m = json.loads(json.dumps(r)); m["entries"][1]["line"] += 1; m["matches"] = [x for x in m["matches"]]; muts.append(m)
        m = json.loads(json.dumps(r)); m["entries"][0]["off"] = 99999; muts.append(m)
        m = json.loads(json.dumps(r)); m["entries"][0]["word"] = "zzz"; muts.append(m)
        m = json.loads(json.dumps(r)); own = [e for e in m["entries"] if next(o for rt in m["inp"] for o in rt if o["off"] == e["off"])["op"] not in ("Jump",) and not next(o for rt in m["inp"] for o in rt if o["off"] == e["off"])["op"].startswith("Branch")]
        if own:
            m["entries"].remove(own[0]); muts.append(m)
    tmp = common.Report("C09"); tmp.known = []
    got = validate(tmp, muts, "selftest")
    # the +1 line corruption is only visible when that entry has a matched recompiled op
    need = len(muts) - sum(1 for i, m in enumerate(muts) if i % 4 == 0 and not any(x["off"] == m["entries"][1]["off"] for x in m["matches"]))
    if not muts or len({g[0] for g in got}) < need:
        raise common.MachineryError(f"C09 self-test: only {len({g[0] for g in got})} of {len(muts)} corrupted maps rejected")
    rep.extra["selftest_corrupted_rejected"] = len({g[0] for g in got})
    rep.traces = len(recs)
    rep.evaluations = len(cases) + len(sets)
    rep.nontrivial = len({json.dumps(r["inp"]) for r in recs if len(r["matches"]) >= 2 and any("\n" in str(e) for e in [r["text"]])})
    rep.extra["by_decompiler"] = {w: sum(1 for r in recs if r["which"] == w) for w in ("exps", "exps-fallback", "ssbscript")}
    rep.rule = ("routine sets of C02's families (plus variants carrying multi-line string parameters) through the ExplorerScript decompiler (structured and "
                "fallback output) and arbitrary sets through the SsbScript decompiler; the recorded map is joined with the emitted text and the recompiled "
                "source map and walked by TLC; non-trivial = distinct input with >=2 uniquely matched ops")
    rep.sample({"input": fmt(recs[len(recs) // 2]["inp"]), "entries": recs[len(recs) // 2]["entries"][:6], "text": recs[len(recs) // 2]["text"][:500]})
    rep.assumptions = ["the 2nd..nth condition of an ||-group is printed inside the first one's if-header and needs no entry of its own",
                       "Jump ops that are rendered structurally (else, loop back-edge, break) are not 'printed as their own statement'"]
    return rep.finish()


if __name__ == "__main__":
    common.main_wrapper(main)
