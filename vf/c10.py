"""C10  Compilation fails only in documented ways and rejects meaningless programs.  Spec: spec/StaticValidity.tla."""
from __future__ import annotations

import json
import os
import random

from vf import common, drive, parsetree, gen_exps, gen_macros, enum_exps
from vf.pool import pmap

WRAP_ALL = ["{S}", "a(); {S} b();", "if ($V == 1) {{ {S} }}", "if not ($V == 1) {{ a(); }} elseif ($W == 2) {{ b(); }} else {{ {S} }}"]
# the statement after a CLOSED construct of every kind in the same scope (a handler that forgets to leave its loop / case context
# would make the statement look legal)
PRE = ["forever {{ a(); break_loop; }}", "while ($V == 1) {{ a(); }}", "while not ($V == 1) {{ a(); }}", "for ($I = 0; $I < 3; $I += 1;) {{ a(); }}",
       "switch ($S) {{ case 1: a(); break; default: b(); }}", "switch ($S) {{ case 1: a(); break; }}", "if not ($V == 1) {{ a(); }}", "with (actor A) {{ a(); }}",
       "~none();", "forever {{ while not ($V == 1) {{ a(); continue; }} break_loop; }}", "message_SwitchTalk ($T) {{ case 1: 'a' default: 'b' }}"]
WRAP_ALL += [p_ + " {S}" for p_ in PRE]
WRAP_LOOP = ["forever {{ {S} break_loop; }}", "while ($V == 1) {{ {S} }}", "while not ($V == 1) {{ a(); {S} }}", "for ($I = 0; $I < 3; $I += 1;) {{ {S} }}"]
WRAP_CASE = ["switch ($S) {{ case 1: {S} break; default: a(); }}", "switch ($S) {{ default: {S} break; }}"]

INVALID = {
    "break-outside-case": (["break;"], WRAP_ALL + WRAP_LOOP),
    "loop-control-outside-loop": (["continue;", "break_loop;"], WRAP_ALL + WRAP_CASE),
    "undefined-label": (["jump @nowhere;", "call @nowhere;", "if ($V == 3) { jump @nowhere; }"], WRAP_ALL + WRAP_LOOP + WRAP_CASE),
    "switch-ends-in-empty-case": (["switch ($T) { case 1: a(); break; case 2: }", "switch ($T) { case 1: }", "switch ($T) { default: }",
                                   "switch ($T) { case 1: a(); default: }", "switch (sector()) { case 1: case 2: }"], WRAP_ALL + WRAP_LOOP + WRAP_CASE),
    "two-defaults": (["switch ($T) { default: a(); break; default: b(); }", "switch ($T) { default: default: b(); }",
                      "switch ($T) { default: a(); case 1: c(); default: b(); }",
                      "message_SwitchTalk ($T) { case 1: 'a' default: 'b' default: 'c' }"], WRAP_ALL + WRAP_LOOP),
    "statements-in-message-switch": (["message_SwitchTalk ($T) { case 1: a(); }", "message_SwitchMonologue ($T) { case 1: 'x' default: a(); b(); }",
                                      "message_SwitchTalk ($T) { case 1: }"], WRAP_ALL + WRAP_LOOP),
    "label-in-with": (["with (actor A) { @inwith; }", "with (object 3) { §inwith; }"], WRAP_ALL + WRAP_LOOP + WRAP_CASE),
    "not-on-bit-test": (["if (not 5[1]) { a(); }", "if ($X == 1 || not 7[3]) { a(); }", "while (not 0x10[0]) { a(); }", "if ($X == 1) { a(); } elseif (not 3[2]) { b(); }",
                         "if (not $V[3]) { a(); }", "if ($X == 1 || not $V[3]) { a(); }", "if not (not GV[0]) { a(); }", "while (not $V[3]) { a(); }",
                         "if ($X == 1) { a(); } elseif (not $V[1]) { b(); }", "for ($I = 0; not $V[2]; $I += 1;) { a(); }"], WRAP_ALL + WRAP_LOOP + WRAP_CASE),
    "unknown-macro": (["~nomacro();", "~nomacro(1, 'a');"], WRAP_ALL + WRAP_LOOP + WRAP_CASE),
    "too-few-arguments": (["~two(1);", "~two();"], WRAP_ALL + WRAP_LOOP),
}
MACROS = "macro two($a, $b) { t($a, $b); }\nmacro none() { n(); }\n"


def invalid_programs() -> list[dict]:
    out = []
    for cls, (stmts, wraps) in INVALID.items():
        for s in stmts:
            for w in wraps:
                body = w.format(S=s)
                out.append({"src": MACROS + f"def 0 {{ {body} return; }}\n", "expect": cls})
                out.append({"src": MACROS + f"def 0 {{ a(); return; }}\ndef 1 for actor X {{ {body} }}\n", "expect": cls})
                out.append({"src": MACROS + f"macro host($p) {{ {body} }}\ndef 0 {{ ~host(1); return; }}\n", "expect": cls})
                out.append({"src": MACROS + f"macro unused() {{ {body} }}\ndef 0 {{ a(); return; }}\n", "expect": cls})
            # ... and after a closed construct in the PREVIOUS routine / macro of the file
            for p_ in PRE:
                pre = p_.format()
                out.append({"src": MACROS + f"def 0 {{ {pre} return; }}\ndef 1 {{ {s} return; }}\n", "expect": cls})
                out.append({"src": MACROS + f"macro pre() {{ {pre} }}\nmacro host() {{ {s} }}\ndef 0 {{ ~pre(); ~host(); return; }}\n", "expect": cls})
    for rec in ["macro r() { ~r(); }\ndef 0 { ~r(); }", "macro a() { ~b(); }\nmacro b() { ~a(); }\ndef 0 { ~a(); }",
                "macro a() { x(); ~b(); }\nmacro b() { ~c(); }\nmacro c() { if ($V == 1) { ~a(); } }\ndef 0 { ~c(); }",
                "macro a() { ~a(); }\ndef 0 { x(); }", "macro b() { ~a(); }\nmacro a() { ~b(); }\ndef 0 { x(); }"]:
        out.append({"src": rec + "\n", "expect": "recursive-macro"})
    # break written in a macro whose call site is inside a case / loop: scoping is per definition
    out.append({"src": "macro m() { break; }\ndef 0 { switch ($S) { case 1: ~m(); } }\n", "expect": "break-outside-case"})
    out.append({"src": "macro m() { continue; }\ndef 0 { forever { ~m(); break_loop; } }\n", "expect": "loop-control-outside-loop"})
    out.append({"src": "macro m() { jump @outer; }\ndef 0 { @outer; a(); ~m(); }\n", "expect": "undefined-label"})
    return out


def degenerate() -> list[str]:
    return ["def 1 for actor 1.5 { a(); }", "def 0 for object -1.5 { a(); }", "def 0 for performer 0.5 { a(); }\ndef 1 for_actor(2.0) { b(); }",
            "", "\n", "   ", "// only a comment\n", "/* block */", "//?: is-ssb-script: false\n", "//?: key: value\n//?: other: x\n", "//?: key: value",
            "def 0 { @l; }", "def 0 { @a; @b; }", "def 0 { §old; }", "def 0 { a(); }\ndef 1 { @l; }", "def 0 {}", "def 0 { ; }", "def 0 { alias previous; }",
            "coro C { @x; }", "macro m() { @l; }\ndef 0 { ~m(); }", "macro m() { }\ndef 0 { ~m(); }", "def 0 { @l; jump @l; }", "def 0 { forever { } }",
            "def 1 { a(); }\ndef 0 { b(); }", "def 2 { a(); }", "def 0 { a(); }\ndef 0 { b(); }", "def -1 { a(); }", "def 0x1 { a(); }", "def 007 { a(); }",
            "def 0 for actor { a(); }", "def 0 for thing X { a(); }", "def 0 for_actor X { a(); }", "coro C { a(); }\ndef 0 { b(); }",
            "import \"./x.exps\"", "import './x.exps';", "def 0 { with (thing X) { a(); } }", "def 0 { a<thing X>(); }", "def 0 { with (actor X) { a<actor Y>(); } }",
            "def 0 { switch (scn($V)[2]) { case 1: a(); } }", "def 0 { if (scn($V) != [1, 2]) { a(); } }", "def 0 { if (a()) { b(); } }", "def 0 { x(Position<'m', 1.3, 2>); }",
            "def 0 { x(Position<'m', 1, 2.55>); }", "def 0 { $V[1] = value($W); }", "def 0 { x(1.); }", "def 0 { x(0099); }", "def 0 { x(0x); }", "def 0 { x('unterminated); }",
            "def 0 { x('''a); }", "def 0 { x(\"a\\\"); }", "def 0 { /* unterminated", "def 0 { x(1,,2); }", "def 0 { x(,); }", "def 0 { x(1,); }", "def 0 { x(1 2); }",
            "def 0 { case 1: a(); }", "def 0 { default: a(); }", "def 0 { else { a(); } }", "def 0 { elseif ($V == 1) { } }", "def 0 { if ($V == 1) { a(); } else { b(); } else { c(); } }",
            "def 0 { return }", "def 0 { return; ", "def 0 { jump l; }", "def 0 { jump @1; }", "def 0 { @1; }", "macro 1() { }", "macro m($a $b) { }", "macro m(a) { x(); }\ndef 0 { ~m(1); }",
            "def 0 { ~m; }", "def 0 { message_SwitchTalk ($V) { default: 'a' case 1: 'b' } }", "def 0 { message_SwitchTalk ($V) { case > 1: 'b' } }",
            "def 0 { message_SwitchTalk ($V) { case menu('x'): 'b' } }", "def 0 { switch ($V) { case 1: 'text' } }", "﻿def 0 { a(); }", "def 0 { a(); }\x00", "def 0 { ä(); }",
            "def 0 { x(§); }", "def 0 { for (a(); $V == 1 || $W == 2; b();) { c(); } }", "def 0 { while ($V == 1 || $W == 2) { c(); } }"]


def corrupt_tokens(rng: random.Random, seeds: list[str], n: int) -> list[str]:
    from antlr4 import InputStream
    from explorerscript.antlr.ExplorerScriptLexer import ExplorerScriptLexer
    pool = ["{", "}", "(", ")", ";", ",", ":", "@", "§", "<", ">", "==", "=", "||", "not", "if", "elseif", "else", "switch", "case", "default", "break", "continue",
            "break_loop", "return", "end", "hold", "jump", "call", "forever", "while", "for", "with", "macro", "def", "coro", "import", "alias", "previous", "value",
            "scn", "debug", "menu", "menu2", "random", "sector", "dungeon_mode", "clear", "reset", "init", "Position", "actor", "X", "$V", "~m", "1", "-1", "1.5",
            "0x1F", "'s'", '"d"', "'''m'''", "[", "]", "+=", "&<<", "FALSE", "message_SwitchTalk", "adventure_log", "dungeon_result", "\\", "#", "?"]
    out = []
    toks_of = []
    for s in seeds:
        lx = ExplorerScriptLexer(InputStream(s))
        lx.removeErrorListeners()
        toks_of.append([t.text for t in lx.getAllTokens()])
    for _ in range(n):
        toks = list(rng.choice(toks_of))
        if not toks:
            continue
        for _ in range(rng.choice([1, 1, 1, 2, 3])):
            i = rng.randrange(len(toks))
            k = rng.randrange(5)
            if k == 0:
                del toks[i]
            elif k == 1:
                toks.insert(i, toks[i])
            elif k == 2 and len(toks) > 1:
                j = rng.randrange(len(toks))
                toks[i], toks[j] = toks[j], toks[i]
            elif k == 3:
                toks[i] = rng.choice(pool)
            else:
                toks.insert(i, rng.choice(pool))
            if not toks:
                break
        out.append(" ".join(toks))
    return out


def random_texts(rng: random.Random, n: int) -> list[str]:
    alpha = list("abcdefXYZ_$~@§0123456789 \t\n\r{}()[]<>;:,.'\"\\/*=+-!&^|#?") + ["é", "日", " ", "\x00", "\x0c", "def ", "macro ", "if ", "'''", '"""', "//", "/*", "*/", "Position<"]
    out = []
    for _ in range(n):
        out.append("".join(rng.choice(alpha) for _ in range(rng.randint(0, 60))))
    for _ in range(n // 4):
        out.append(bytes(rng.randrange(256) for _ in range(rng.randint(0, 40))).decode("utf-8", "replace"))
    return out


def import_cases() -> list[dict]:
    M = "macro lib() { l(); }\n"
    R = "def 0 { r(); }\n"
    mk = lambda files, cyc=False, rin=False, res=True, expect="bad-import": {"files": files, "main": "main.exps", "lookup": [], "flags": {"importCycle": cyc, "routineInImport": rin, "importsResolvable": res}, "expect": expect}
    return [
        mk({"main.exps": 'import "./missing.exps";\ndef 0 { a(); }\n'}, res=False),
        mk({"main.exps": 'import "missing.exps";\ndef 0 { a(); }\n'}, res=False),
        mk({"main.exps": 'import "/nonexistent/dir/x.exps";\ndef 0 { a(); }\n'}, res=False),
        mk({"main.exps": 'import "./a.exps";\ndef 0 { ~lib(); }\n', "a.exps": 'import "./gone.exps";\n' + M}, res=False),
        mk({"main.exps": 'import "sub/../a.exps";\ndef 0 { a(); }\n', "a.exps": M}, res=False),
        mk({"main.exps": 'import "./main.exps";\ndef 0 { a(); }\n'}, cyc=True),
        mk({"main.exps": 'import "./a.exps";\ndef 0 { ~lib(); }\n', "a.exps": 'import "./main.exps";\n' + M}, cyc=True),
        mk({"main.exps": 'import "./a.exps";\ndef 0 { a(); }\n', "a.exps": 'import "./b.exps";\n' + M, "b.exps": 'import "./a.exps";\nmacro other() { o(); }\n'}, cyc=True),
        mk({"main.exps": 'import "./a.exps";\ndef 0 { a(); }\n', "a.exps": 'import "./sub/b.exps";\n' + M, "sub/b.exps": 'import "../a.exps";\nmacro other() { o(); }\n'}, cyc=True),
        mk({"main.exps": 'import "./a.exps";\ndef 0 { a(); }\n', "a.exps": 'import "./b.exps";\n' + M, "b.exps": 'import "./c.exps";\nmacro mb() { o(); }\n',
            "c.exps": 'import "./a.exps";\nmacro mc() { o(); }\n'}, cyc=True),
        mk({"main.exps": 'import "./a.exps";\ndef 0 { a(); }\n', "a.exps": 'import "./b.exps";\n' + M, "b.exps": 'import "./c.exps";\nmacro mb() { o(); }\n',
            "c.exps": 'import "./d.exps";\nmacro mc() { o(); }\n', "d.exps": 'import "./b.exps";\nmacro md() { o(); }\n'}, cyc=True),
        mk({"main.exps": 'import "./a.exps";\nimport "./x.exps";\ndef 0 { a(); }\n', "a.exps": M, "x.exps": 'import "./y.exps";\nmacro mx() { o(); }\n',
            "y.exps": 'import "./z.exps";\nmacro my() { o(); }\n', "z.exps": 'import "./x.exps";\nmacro mz() { o(); }\n'}, cyc=True),
        mk({"main.exps": 'import "./a.exps";\ndef 0 { ~lib(); }\n', "a.exps": M + R}, rin=True),
        mk({"main.exps": 'import "./a.exps";\ndef 0 { ~lib(); }\n', "a.exps": 'import "./b.exps";\n' + M, "b.exps": "macro other() { o(); }\ncoro C { c(); }\n"}, rin=True),
        mk({"main.exps": 'import "./a.exps";\ndef 0 { ~lib(); }\n', "a.exps": M + "def 0 { alias previous; }\n"}, rin=True),
    ] + [
        # every kind of routine header, alone / before / after the macros of the imported file, directly and through a second import
        mk({"main.exps": 'import "./a.exps";\ndef 0 { ~lib(); }\n', "a.exps": (rt + M) if first else (M + rt)}, rin=True)
        for rt in ("def 0 for actor ACTOR_X { r(); }\n", "def 0 for object 3 { r(); }\n", "def 0 for performer P { r(); }\n", "def 0 for_actor(OLD) { r(); }\n",
                   "def 0 for_object(4) { r(); }\n", "def 0 for actor ACTOR_X { alias previous; }\n", "coro C_IN { r(); }\n", "def 7 { r(); }\n",
                   "def 0 for actor A { a(); }\ndef 1 for object 2 { b(); }\n")
        for first in (False, True)
    ] + [
        mk({"main.exps": 'import "./a.exps";\ndef 0 { ~lib(); }\n', "a.exps": 'import "./b.exps";\n' + M, "b.exps": "macro other() { o(); }\n" + rt}, rin=True)
        for rt in ("def 0 for actor ACTOR_X { r(); }\n", "def 0 for_performer(Q) { r(); }\n")
    ]


def run_src(item: dict) -> dict:
    c = drive.compile_text(item["src"])
    rec = {"src": item["src"], "expect": item.get("expect", ""), "outcome": "ok" if c["status"] == "ok" else c["status"], "err": c["err"], "hasTable": False,
           "nodes": [], "par": [], "routines": [], "macros": [], "importCycle": False, "routineInImport": False, "importsResolvable": True}
    if item.get("want_table"):
        try:
            t = parsetree.parse(item["src"])
            rec.update({"hasTable": True, "nodes": t["nodes"], "par": t["par"], "routines": t["routines"], "macros": t["macros"]})
        except Exception:
            pass
    return rec


def run_tree(item: dict) -> dict:
    c = gen_macros.compile_tree(item)
    rec = {"src": "\n".join(f"// ---- {k}\n{v}" for k, v in item["files"].items()), "expect": item["expect"], "outcome": "ok" if c["status"] == "ok" else c["status"],
           "err": c["err"], "hasTable": True, "nodes": [], "par": [], "routines": [], "macros": []}
    rec.update(item["flags"])
    return rec


def validate(rep, recs, tag):
    out = []
    B = 3000
    fields = ("outcome", "hasTable", "nodes", "par", "routines", "macros", "importCycle", "routineInImport", "importsResolvable")
    for k in range(0, len(recs), B):
        path = os.path.join(common.scratch(), f"c10-{tag}-{k}.json")
        with open(path, "w") as fh:
            json.dump([{f: r[f] for f in fields} for r in recs[k:k + B]], fh)
        res = common.run_tlc("StaticValidity", "StaticValidity.cfg", {"CASES_FILE": path})
        os.unlink(path)
        rep.add_tlc(res)
        if res["inv_errors"] and not res["viols"]:
            raise common.MachineryError("invariant violation without VIOL line:\n" + res["out"][-3000:])
        for v in res["viols"]:
            out.append((k + int(v[0]) - 1, common.tla_unquote(v[1]), common.tla_unquote(v[2])))
    return out


def main() -> int:
    rep = common.Report("C10")
    rng = random.Random(common.seed() * 467 + 10)
    thorough = common.tier() == "thorough"
    items = [dict(i, want_table=True) for i in invalid_programs()]
    n_invalid = len(items)
    valid_srcs = enum_exps.c01_family(False)[:: (25 if not thorough else 5)]
    valid_srcs += [gen_exps.random_program(rng, 3) for _ in range(300 if not thorough else 3000)]
    items += [{"src": s, "want_table": True} for s in valid_srcs]
    items += [{"src": s} for s in degenerate()]
    seeds = valid_srcs[:40] + [i["src"] for i in items[:n_invalid:37]]
    items += [{"src": s} for s in corrupt_tokens(rng, seeds, 2500 if not thorough else 80000)]
    items += [{"src": s} for s in random_texts(rng, 800 if not thorough else 20000)]
    recs = pmap(run_src, items, limit=20.0, chunk=32)
    recs += pmap(run_tree, import_cases(), chunk=2)
    hangs = 0
    for i, r in enumerate(recs):
        if r.get("_error"):
            raise common.MachineryError("harness error: " + r["_error"])
        if r.get("_timeout"):
            hangs += 1
            recs[i] = {"src": items[i]["src"], "expect": "", "outcome": "NoAnswerWithin20s", "err": "", "hasTable": False, "nodes": [], "par": [], "routines": [],
                       "macros": [], "importCycle": False, "routineInImport": False, "importsResolvable": True}
    # the generator's own claim (expect) must agree with the specification's Valid(): otherwise the harness is wrong
    for i, kind, detail in validate(rep, recs, "main"):
        r = recs[i]
        rep.violation(f"compile-outcome:{kind}:{detail}", {"src": r["src"][:1500], "outcome": r["outcome"], "err": r["err"], "expect": r["expect"]})
    # vacuity guard: every injected program must be invalid by the spec; check by flipping outcomes to ok
    inj = [dict(r, outcome="ok") for r in recs[:n_invalid]] + [dict(r, outcome="ok") for r in recs[-len(import_cases()):]]
    tmp = common.Report("C10"); tmp.known = []
    got = validate(tmp, inj, "selftest")
    if len({g[0] for g in got}) != len(inj):
        missing = [inj[i]["src"] for i in range(len(inj)) if i not in {g[0] for g in got}][:3]
        raise common.MachineryError("C10 self-test: injected invalid programs are Valid by the spec (vacuous):\n" + "\n---\n".join(missing))
    wrong = [(inj[g[0]]["expect"], g[2]) for g in got if inj[g[0]]["expect"] and inj[g[0]]["expect"] != g[2]]
    if wrong:
        raise common.MachineryError(f"C10 self-test: spec names another class than injected: {wrong[:5]}")
    m2 = [dict(recs[n_invalid], outcome="KeyError")]
    if len(validate(tmp, m2, "selftest2")) != 1:
        raise common.MachineryError("C10 self-test: undocumented exception type accepted")
    rep.extra["selftest_corrupted_rejected"] = len(inj) + 1
    outcomes = {}
    for r in recs:
        outcomes[r["outcome"]] = outcomes.get(r["outcome"], 0) + 1
    rep.extra["outcomes"] = outcomes
    rep.extra["no_answer_within_limit"] = hangs
    rep.traces = len(recs)
    rep.evaluations = len(recs)
    rep.nontrivial = len({r["src"] for r in recs if r["outcome"] != "ok"})
    rep.rule = (f"{n_invalid} programs with one injected violation of each listed class in every structural position (routine, second routine, called macro, "
                f"unused macro; top level / if / else / loops / cases), {len(valid_srcs)} valid programs, {len(degenerate())} degenerate files, token-level "
                "corruptions (delete/duplicate/swap/replace/insert) of 50 seeds, random text and bytes, 12 import graphs with missing files / cycles / routines "
                "in imports; non-trivial = distinct input that was not accepted")
    rep.sample({"src": recs[3]["src"], "outcome": recs[3]["outcome"], "err": recs[3]["err"]})
    rep.sample({"src": recs[-1]["src"], "outcome": recs[-1]["outcome"], "err": recs[-1]["err"]})
    return rep.finish()


if __name__ == "__main__":
    common.main_wrapper(main)
