"""C14  Source maps survive storage and offset rewriting.  Spec: spec/SourceMapOps.tla."""
from __future__ import annotations

import itertools
import json
import os
import random

from vf import common, drive, gen_exps, gen_macros
from vf.pool import pmap


def tables(sm) -> dict:
    ops = [{"off": int(k), "line": v.line, "col": v.column} for k, v in sorted(sm._mappings.items())]
    macros = []
    for k, v in sorted(sm._mappings_macros.items()):
        macros.append({"off": int(k), "file": "<none>" if v.relpath_included_file is None else str(v.relpath_included_file), "macro": v.macro_name,
                       "line": v.line, "col": v.column,
                       "ci": [] if v.called_in is None else ["<none>" if v.called_in[0] is None else str(v.called_in[0]), v.called_in[1], v.called_in[2]],
                       "ra": -1 if v.return_addr is None else v.return_addr,
                       "pm": sorted([[str(a), ("i:%d" % b) if isinstance(b, int) else "s:" + str(b)] for a, b in dict(v.parameter_mapping).items()])})
    marks = [m.serialize() for m in sm._position_marks]
    mmarks = [["<none>" if y[0] is None else y[0], y[1], y[2].serialize()] for y in sm._position_marks_macro]
    # TLC compares sequences of uniform element type: stringify the mixed lists
    return {"ops": ops, "macros": [dict(m, ci=[str(x) for x in m["ci"]], pm=[f"{a}={b}" for a, b in m["pm"]]) for m in macros],
            "marks": [json.dumps(x) for x in marks], "mmarks": [json.dumps(x) for x in mmarks]}


def build_map(text: str):
    """the original map, built with the constructors (NOT through deserialize, which is under test)"""
    from explorerscript.source_map import SourceMap, SourceMapping, MacroSourceMapping, SourceMapPositionMark
    d = json.loads(text)
    mk = lambda m: SourceMapPositionMark(*m)
    return SourceMap({int(k): SourceMapping(v[0], v[1]) for k, v in d["map"].items()},
                     [mk(m) for m in d["pos_marks"]],
                     {int(k): MacroSourceMapping(v[0], v[1], v[2], v[3], tuple(v[4]) if v[4] is not None else None, v[5], dict(v[6]))
                      for k, v in d["macros"]["map"].items()},
                     [(y[0], y[1], mk(y[2])) for y in d["macros"]["pos_marks"]])


def run_case(case: dict) -> dict:
    """case = {"sm": serialised source map text, "f": [[old, new], ...]}"""
    from explorerscript.source_map import SourceMap
    rec = {"f": case["f"], "storeStatus": "ok", "rewStatus": "ok", "eq": False, "ser1": "", "ser2": "", "origin": case.get("origin", "")}
    m = build_map(case["sm"])
    rec["m"] = tables(m)
    rec["reloaded"] = rec["m"]
    rec["rew"] = rec["m"]
    try:
        s1 = m.serialize()
        m2 = SourceMap.deserialize(s1)
        rec["eq"] = bool(m2 == m) and bool(m == m2)
        rec["reloaded"] = tables(m2)
        rec["ser1"], rec["ser2"] = s1, m2.serialize()
    except Exception as ex:
        rec["storeStatus"] = type(ex).__name__ + ": " + str(ex)[:100]
    try:
        m3 = build_map(case["sm"])
        m3.rewrite_offsets({int(a): int(b) for a, b in case["f"]})
        rec["rew"] = tables(m3)
    except Exception as ex:
        rec["rewStatus"] = type(ex).__name__ + ": " + str(ex)[:100]
    return rec


def built_maps(rng: random.Random, thorough: bool) -> list[str]:
    """source maps as the real builders produce them (compiler incl. macros; both decompilers are covered by the
    compile results' maps being re-serialised), serialised"""
    out = []
    srcs = [gen_exps.random_program(rng, 2) for _ in range(150 if not thorough else 1000)]
    for c in pmap(drive.compile_text, srcs):
        if c.get("status") == "ok" and c["sm"]:
            out.append(c["sm"])
    trees = [gen_macros.multi_file(rng) for _ in range(150 if not thorough else 1000)]
    for c in pmap(gen_macros.compile_tree, trees, chunk=4):
        if c.get("status") == "ok" and c["sm"]:
            out.append(c["sm"])
    return out


def synthetic_maps(max_off: int = 3) -> list[str]:
    """arbitrary well-typed maps over offsets 0..max_off: every subset of op entries x macro entries with return
    addresses 0..max_off+2, called_in, parameter mappings with int and string values, 0-2 position marks"""
    out = []
    offs = list(range(max_off + 1))
    pm_opts = [{}, {"$a": 3}, {"$a": "Position<'m', 1, 2.5>", "$b": 0}]
    ci_opts = [None, [None, 4, 2], ["lib/x.exps", 0, 0]]
    marks = [[1, 2, 1, 30, "m", 0, 2, 5, 6], [3, 0, 4, 1, "é 日", 2, 0, 0, 63]]
    k = 0
    for nops in range(0, max_off + 2):
        for opsel in itertools.combinations(offs, nops):
            rest = [o for o in offs if o not in opsel]
            for nmac in range(0, len(rest) + 1):
                for macsel in itertools.combinations(rest, nmac):
                    for ra_base in (0, 1, max_off + 2):
                        k += 1
                        d = {"map": {str(o): [o + 1, 4 * (o % 3)] for o in opsel}, "pos_marks": marks[: k % 3],
                             "macros": {"map": {}, "pos_marks": [[None if k % 2 else "lib/x.exps", "mac", marks[0]], [None if k % 2 else "lib/x.exps", "mac", marks[0]],
                                                                 [None, "mac", marks[1]], ["lib/x.exps", "other", dict(enumerate(marks[0])) and marks[0][:4] + ["m"] + marks[1][5:]]][: (k // 3) % 5]}}
                        for j, o in enumerate(macsel):
                            ra = (ra_base + j) % (max_off + 3)
                            d["macros"]["map"][str(o)] = [None if (k + j) % 2 else "lib/x.exps", f"mac{j}", o + 7, j, ci_opts[(k + j) % 3],
                                                          None if (k + j) % 5 == 4 else ra, pm_opts[(k + j) % 3]]
                        out.append(json.dumps(d))
    return out


def mappings_for(offs: list[int], rng: random.Random, n: int, max_new: int) -> list[list[list[int]]]:
    """injective partial maps old -> new, incl. dropping and non-monotone ones"""
    out = [[[o, o] for o in offs], [[o, o + 10] for o in offs], [], [[o, max_new - i] for i, o in enumerate(offs)]]
    # compaction: some ops dropped, the survivors renumbered densely from 0 (what an optimising assembler does)
    for drop in ([o for o in offs if o % 2 == 1], [o for o in offs if o % 3 != 2], offs[1:3], offs[2:5]):
        keep = [o for o in offs if o not in drop]
        out.append([[o, i] for i, o in enumerate(keep)])
    for _ in range(n):
        keep = [o for o in offs if rng.random() < 0.6]
        out.append([[o, i] for i, o in enumerate(keep)])
    for _ in range(n):
        dom = [o for o in offs if rng.random() < 0.7]
        img = rng.sample(range(max_new + 1), len(dom)) if len(dom) <= max_new + 1 else list(range(len(dom)))
        if rng.random() < 0.5:
            img = sorted(img)
        out.append([[a, b] for a, b in zip(dom, img)])
    return out


def validate(rep, recs, tag):
    out = []
    B = 3000
    for k in range(0, len(recs), B):
        path = os.path.join(common.scratch(), f"c14-{tag}-{k}.json")
        with open(path, "w") as fh:
            json.dump(recs[k:k + B], fh)
        res = common.run_tlc("SourceMapOps", "SourceMapOps.cfg", {"CASES_FILE": path})
        os.unlink(path)
        rep.add_tlc(res)
        if res["inv_errors"] and not res["viols"]:
            raise common.MachineryError("invariant violation without VIOL line:\n" + res["out"][-3000:])
        for v in res["viols"]:
            out.append((k + int(v[0]) - 1, common.tla_unquote(v[1])))
    return out


def main() -> int:
    rep = common.Report("C14")
    rng = random.Random(common.seed() * 271 + 14)
    thorough = common.tier() == "thorough"
    cases = []
    syn = synthetic_maps(3)
    if not thorough:
        syn = syn[::2]
    for s in syn:
        offs = sorted({int(k) for k in json.loads(s)["map"]} | {int(k) for k in json.loads(s)["macros"]["map"]})
        for f in mappings_for(list(range(0, 6)), rng, 3 if not thorough else 10, 7):
            cases.append({"sm": s, "f": f, "origin": "synthetic"})
    for s in built_maps(rng, thorough):
        d = json.loads(s)
        offs = sorted({int(k) for k in d["map"]} | {int(k) for k in d["macros"]["map"]})
        hi = (max(offs) if offs else 0) + 3
        for f in mappings_for(list(range(0, hi)), rng, 3, hi + 5):
            cases.append({"sm": s, "f": f, "origin": "built"})
    recs = pmap(run_case, cases, chunk=32)
    for r in recs:
        if r.get("_error") or r.get("_timeout"):
            raise common.MachineryError("harness failure: " + str(r)[:400])
    for i, kind in validate(rep, recs, "main"):
        r = recs[i]
        rep.violation("source-map:" + kind, {"map": cases[i]["sm"][:1500], "f": r["f"], "store": r["storeStatus"], "rewrite": r["rewStatus"],
                                             "eq": r["eq"], "rewritten": r["rew"], "origin": r["origin"]})
    good = [r for r in recs if r["m"]["macros"] and r["m"]["ops"] and len(r["f"]) >= 2][:3]
    muts = []
    for r in good:
        m = json.loads(json.dumps(r)); m["rew"]["ops"] = m["rew"]["ops"][1:] + [dict(m["m"]["ops"][0], off=99)]; muts.append(m)
        m = json.loads(json.dumps(r)); m["eq"] = False; muts.append(m)
        m = json.loads(json.dumps(r))
        if m["rew"]["macros"]:
            m["rew"]["macros"][0]["ra"] += 1
            muts.append(m)
        m = json.loads(json.dumps(r)); m["reloaded"]["macros"][0]["macro"] = "other"; muts.append(m)
    tmp = common.Report("C14"); tmp.known = []
    got = validate(tmp, muts, "selftest")
    if not muts or len(got) != len(muts):
        raise common.MachineryError(f"C14 self-test: {len(muts) - len(got)} corrupted records accepted")
    rep.extra["selftest_corrupted_rejected"] = len(muts)
    rep.traces = len(recs)
    rep.evaluations = len(cases)
    rep.nontrivial = len({(c["sm"], json.dumps(c["f"])) for c in cases if '"macros": {"map": {"' in c["sm"] and any(a != b for a, b in c["f"])})
    rep.rule = (f"{len(syn)} synthetic maps over offsets 0..3 (all subsets of op/macro entries, return addresses 0..5 incl. 0 and none, called_in, int and "
                "string parameter values, position marks) and the maps the real compiler built for random programs and macro trees, each x identity / "
                "shift / empty / reversing / random injective partial mappings; non-trivial = distinct (map with macro entries, non-identity mapping)")
    rep.sample({"map": cases[len(cases) // 3]["sm"][:600], "f": cases[len(cases) // 3]["f"], "rewritten": recs[len(cases) // 3]["rew"]})
    rep.assumptions = ["when no later op survives, a dropped macro return address keeps its old value (the statement only prescribes the other cases)"]
    return rep.finish()


if __name__ == "__main__":
    common.main_wrapper(main)
