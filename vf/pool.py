"""Worker-subprocess pool with a hard per-case wall-clock limit (DESIGN 1.2).

Well-formed inputs exist on which the code under test does not return, some of them inside C
extension calls where no Python signal handler runs - so a case that exceeds its limit is dealt
with by killing its worker process; the case is reported as {"_timeout": True}.
"""
from __future__ import annotations

import multiprocessing as mp
import os
import time
import traceback
from multiprocessing.connection import wait


class CaseTimeout(BaseException):
    pass


def _worker(conn, fn):
    import logging
    import warnings
    logging.disable(logging.CRITICAL)
    warnings.simplefilter("ignore")
    import sys
    sys.stderr = open(os.devnull, "w")   # ANTLR's console error listener is noisy on rejected inputs
    while True:
        try:
            msg = conn.recv()
        except EOFError:
            return
        if msg is None:
            return
        idx, batch = msg
        for k, arg in enumerate(batch):
            try:
                res = fn(arg)
            except RecursionError:
                res = {"_error": "RecursionError in harness/code under test"}
            except Exception:
                res = {"_error": traceback.format_exc()}
            conn.send((idx + k, res))
        conn.send(("batch-done", idx))


class _W:
    def __init__(self, ctx, fn):
        self.parent, child = ctx.Pipe()
        self.proc = ctx.Process(target=_worker, args=(child, fn), daemon=True)
        self.proc.start()
        child.close()
        self.batch = None      # (start index, n)
        self.done_in_batch = 0
        self.t_item = 0.0

    def kill(self):
        try:
            self.proc.kill()
            self.proc.join(1)
        except Exception:
            pass
        try:
            self.parent.close()
        except Exception:
            pass


def pmap(fn, items: list, limit: float = 20.0, workers: int | None = None, chunk: int = 8) -> list:
    """Order-preserving parallel map with a hard per-item limit.  fn: module-level, returns a dict."""
    n = len(items)
    if n == 0:
        return []
    if workers is None:
        workers = min(16, os.cpu_count() or 4)
    workers = max(1, min(workers, (n + chunk - 1) // chunk))
    ctx = mp.get_context("fork")
    results: list = [None] * n
    next_i = 0
    ws = [_W(ctx, fn) for _ in range(workers)]
    remaining = n
    died_once: set[int] = set()

    def feed(w: _W):
        nonlocal next_i
        if next_i >= n:
            w.batch = None
            return
        size = min(chunk, n - next_i)
        w.batch = (next_i, size)
        w.done_in_batch = 0
        w.t_item = time.time()
        w.parent.send((next_i, items[next_i:next_i + size]))
        next_i += size

    for w in ws:
        feed(w)
    try:
        while remaining > 0:
            active = [w for w in ws if w.batch is not None]
            if not active:
                break
            ready = wait([w.parent for w in active], timeout=0.5)
            now = time.time()
            for w in active:
                if w.parent in ready:
                    try:
                        while w.parent.poll():
                            tag, val = w.parent.recv()
                            if tag == "batch-done":
                                feed(w)
                                break
                            results[tag] = val
                            remaining -= 1
                            w.done_in_batch += 1
                            w.t_item = time.time()
                    except (EOFError, OSError):
                        # worker died (crash in C code, or killed from outside, e.g. under memory pressure): the item it was on is tried
                        # once more in a fresh worker; dying on the same item twice is reported
                        start, size = w.batch
                        bad = start + w.done_in_batch
                        if bad < start + size and results[bad] is None and bad not in died_once:
                            died_once.add(bad)
                            rest = (bad, start + size - bad)
                        else:
                            if bad < start + size and results[bad] is None:
                                results[bad] = {"_error": "worker process died on this case (twice)"}
                                remaining -= 1
                            rest = (bad + 1, start + size - bad - 1)
                        w.kill()
                        nw = _W(ctx, fn)
                        ws[ws.index(w)] = nw
                        _resume(nw, rest, items)
                        if nw.batch is None:
                            feed(nw)
                elif w.batch is not None and now - w.t_item > limit:
                    start, size = w.batch
                    bad = start + w.done_in_batch
                    w.kill()
                    if bad < start + size and results[bad] is None:
                        results[bad] = {"_timeout": True}
                        remaining -= 1
                    nw = _W(ctx, fn)
                    ws[ws.index(w)] = nw
                    _resume(nw, (bad + 1, start + size - bad - 1), items)
                    if nw.batch is None:
                        feed(nw)
    finally:
        for w in ws:
            try:
                w.parent.send(None)
            except Exception:
                pass
            w.kill()
    for i in range(n):
        if results[i] is None:
            results[i] = {"_error": "no result (pool bookkeeping)"}
    return results


def _resume(w: _W, rest: tuple[int, int], items: list):
    start, size = rest
    if size <= 0:
        w.batch = None
        return
    w.batch = (start, size)
    w.done_in_batch = 0
    w.t_item = time.time()
    w.parent.send((start, items[start:start + size]))
