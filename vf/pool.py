"""Worker-subprocess pool with a per-case wall-clock limit (DESIGN 1.2): well-formed inputs exist on
which the code under test does not return, so every real-code call is made under an alarm."""
from __future__ import annotations

import multiprocessing as mp
import os
import signal
import traceback


class CaseTimeout(BaseException):
    pass


def _alarm(signum, frame):
    raise CaseTimeout()


def call_with_timeout(fn, arg, limit: float):
    signal.signal(signal.SIGALRM, _alarm)
    signal.setitimer(signal.ITIMER_REAL, limit)
    try:
        return fn(arg)
    except CaseTimeout:
        return {"_timeout": True}
    except RecursionError:
        return {"_error": "RecursionError in harness/code under test"}
    finally:
        signal.setitimer(signal.ITIMER_REAL, 0)


def _run_chunk(args):
    fn, chunk, limit = args
    import logging
    import warnings
    logging.disable(logging.CRITICAL)
    warnings.simplefilter("ignore")
    out = []
    for a in chunk:
        try:
            out.append(call_with_timeout(fn, a, limit))
        except Exception:  # harness bug: surface it
            out.append({"_error": traceback.format_exc()})
    return out


def pmap(fn, items: list, limit: float = 20.0, workers: int | None = None, chunk: int = 16) -> list:
    """Order-preserving parallel map.  fn must be a module-level function returning a dict."""
    if workers is None:
        workers = min(16, os.cpu_count() or 4)
    if len(items) <= chunk or workers <= 1:
        return _run_chunk((fn, items, limit))
    chunks = [items[i:i + chunk] for i in range(0, len(items), chunk)]
    ctx = mp.get_context("fork")
    with ctx.Pool(workers, maxtasksperchild=200) as pool:
        res = pool.map(_run_chunk, [(fn, c, limit) for c in chunks], chunksize=1)
    out = []
    for r in res:
        out.extend(r)
    return out
