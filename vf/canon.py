"""Canonical, TLC-friendly encoding of SSB parameters, ops and routine tables.

TLC refuses to compare values of different types, so every parameter becomes a string token:
  i:<int>  c:<constant name>  f:<fixed point text>  s:<hex utf-8>  l:<lang>=<hex>;...  p:<hexname>,xo,yo,xr,yr
Encoding only - no semantic decision is taken here.
"""
from __future__ import annotations

from vf import common  # noqa: F401  (sys.path)

from explorerscript.ssb_converting.ssb_data_types import (
    SsbOpParamConstant, SsbOpParamConstString, SsbOpParamFixedPoint, SsbOpParamLanguageString,
    SsbOpParamPositionMarker, SsbOperation, SsbOpCode, SsbRoutineInfo, SsbRoutineType, SsbCoroutine,
)
from explorerscript.ssb_converting import ssb_special_ops as sp


def hx(s: str) -> str:
    return s.encode("utf-8", "surrogatepass").hex()


def unhx(h: str) -> str:
    return bytes.fromhex(h).decode("utf-8", "surrogatepass")


def tok(p) -> str:
    if isinstance(p, bool):
        return f"i:{int(p)}"
    if isinstance(p, int):
        return f"i:{p}"
    if isinstance(p, SsbOpParamConstant):
        return f"c:{p.name}"
    if isinstance(p, SsbOpParamFixedPoint):
        return f"f:{p.value}"
    if isinstance(p, SsbOpParamConstString):
        return f"s:{hx(p.name)}"
    if isinstance(p, SsbOpParamLanguageString):
        return "l:" + ";".join(f"{k}={hx(v)}" for k, v in sorted(p.strings.items()))
    if isinstance(p, SsbOpParamPositionMarker):
        return f"p:{hx(p.name)},{p.x_offset},{p.y_offset},{p.x_relative},{p.y_relative}"
    return f"?:{type(p).__name__}:{p!r}"


def untok(t: str):
    k, v = t[0], t[2:]
    if k == "i":
        return int(v)
    if k == "c":
        return SsbOpParamConstant(v)
    if k == "f":
        x = SsbOpParamFixedPoint(0, "0")
        x.value = v
        return x
    if k == "s":
        return SsbOpParamConstString(unhx(v))
    if k == "l":
        d = {}
        for part in v.split(";"):
            if part:
                a, b = part.split("=", 1)
                d[a] = unhx(b)
        return SsbOpParamLanguageString(d)
    if k == "p":
        n, xo, yo, xr, yr = v.split(",")
        return SsbOpParamPositionMarker(unhx(n), int(xo), int(yo), int(xr), int(yr))
    raise ValueError(t)


JUMP_IDX = dict(sp.OPS_WITH_JUMP_TO_MEM_OFFSET)


def op_rec(op: SsbOperation, jump_last: bool) -> dict:
    """One op as a record {off, op, ps, tgt}.  jump_last=True: the compiler convention (target is the
    last parameter); False: the decompiler-input convention (target at the table index)."""
    name = op.op_code.name
    ps = list(op.params)
    tgt = -1
    if name in JUMP_IDX and ps:
        idx = len(ps) - 1 if jump_last else JUMP_IDX[name]
        if 0 <= idx < len(ps) and isinstance(ps[idx], int) and not isinstance(ps[idx], bool):
            tgt = ps[idx]
            del ps[idx]
    return {"off": op.offset, "op": name, "ps": [tok(p) for p in ps], "tgt": tgt,
            "pseudo": isinstance(op, (sp.SsbLabel, sp.SsbLabelJump, sp.SsbForeignLabel))}


def ops_recs(routine_ops, jump_last: bool) -> list[list[dict]]:
    return [[op_rec(o, jump_last) for o in r] for r in routine_ops]


def info_rec(info: SsbRoutineInfo | None, coro) -> dict:
    if info is None:
        return {"kind": "NONE", "target": "", "coro": ""}
    if info.linked_to_name:
        tgt = f"c:{info.linked_to_name}"
    else:
        tgt = f"i:{info.linked_to}"
    return {"kind": info.type.name, "target": tgt, "coro": coro if isinstance(coro, str) else ""}


def infos_recs(infos, coros) -> list[dict]:
    out = []
    for i, inf in enumerate(infos):
        c = coros[i] if coros is not None and i < len(coros) else ""
        out.append(info_rec(inf, c))
    return out


# ---- building real objects from records (decompiler inputs) ---------------------------------

def build_ops(routines: list[list[dict]]):
    """records {off, op, ps(tokens), tgt} -> list[list[SsbOperation]] in decompiler-input convention."""
    out = []
    for r in routines:
        ops = []
        for o in r:
            ps = [untok(t) for t in o["ps"]]
            if o["tgt"] != -1:
                idx = JUMP_IDX[o["op"]]
                ps.insert(idx, o["tgt"])
            ops.append(SsbOperation(o["off"], SsbOpCode(-1, o["op"]), ps))
        out.append(ops)
    return out


def build_infos(infos: list[dict]):
    ris, coros = [], []
    for i, inf in enumerate(infos):
        t = SsbRoutineType[inf["kind"]]
        tg = inf["target"]
        if tg.startswith("c:"):
            ris.append(SsbRoutineInfo(t, -1, tg[2:]))
        else:
            ris.append(SsbRoutineInfo(t, int(tg[2:]) if tg else 0))
        if t == SsbRoutineType.COROUTINE:
            coros.append(SsbCoroutine(i, inf["coro"]))
    # the coroutine table of a binary is a global list: it is neither sorted by routine nor restricted to this script
    if len(coros) >= 1:
        coros = list(reversed(coros)) + [SsbCoroutine(len(infos) + 5, "CORO_NOT_IN_THIS_SCRIPT")]
    return ris, coros
