"""./check <ID> --replay <path>: re-run one recorded violation against the current tree.

A replay file is {kind, witness} as written by common.Report.finish().  The witness is re-driven through the real
code and the same TLC decision as in the check that produced it:

  witness has `src`    -> compiled again (single file, or a `// ---- <name>` multi-file tree), CompileEquiv product;
                          for C13 the flat round trip, for C10 the outcome machine is NOT re-run (outcome is printed)
  witness has `input`  -> decompiled again, both C02 products + outcome
  anything else        -> the witness is printed; re-run the check itself (all checks are deterministic per VERIF_SEED)

Exit: 1 the violation (any violation on this witness) reproduces, 0 it does not, 2 cannot be replayed mechanically."""
from __future__ import annotations

import json
import re
import sys

from vf import common


def _split_tree(src: str):
    if not src.startswith("// ---- "):
        return None
    files, cur = {}, None
    for line in src.split("\n"):
        m = re.match(r"^// ---- (.+)$", line)
        if m:
            cur = m.group(1)
            files[cur] = []
        else:
            files[cur].append(line)
    return {"files": {k: "\n".join(v) for k, v in files.items()}, "main": next(iter(files)), "lookup": []}


_OP = re.compile(r"^(-?\d+):([^(]+)\((.*)\)->(-?\d+)$", re.S)


def _unfmt(rs):
    out = []
    for r in rs:
        ops = []
        for s in r:
            m = _OP.match(s)
            ps = [p for p in re.split(r",(?=[icfslp?]:)", m.group(3)) if p != ""] if m.group(3) else []   # position marks contain commas
            ops.append({"off": int(m.group(1)), "op": m.group(2), "ps": ps, "tgt": int(m.group(4)), "pseudo": False})
        out.append(ops)
    return out


class _Rep(common.Report):
    """a Report that never writes evidence and does not filter known findings"""

    def __init__(self, prop):
        super().__init__(prop)
        self.known = []


def main() -> int:
    prop, path = sys.argv[1], sys.argv[2]
    with open(path) as fh:
        v = json.load(fh)
    w = v["witness"]
    print(f"replay {prop} kind={v['kind']}")
    for k, x in w.items():
        s = x if isinstance(x, str) else json.dumps(x, default=str)
        print(f"--- {k}:\n{s[:4000]}")
    rep = _Rep(prop)
    if isinstance(w.get("input"), list) and w["input"] and isinstance(w["input"][0], list):
        from vf import c02
        rs = _unfmt(w["input"])
        case = {"routines": rs, "infos": [{"kind": "GENERIC", "target": "i:0", "coro": ""}] +
                [{"kind": "ACTOR", "target": "c:A", "coro": ""} for _ in rs[1:]], "origin": "replay"}
        recs = c02.run_decompile([case])
        r = recs[0]
        print(f"=== now: status={r['status']} fallback={r['fallback']} err={r['err'][:200]}\n{r['text']}")
        if r["status"] == "ok" and not r["fallback"]:
            c02.check_structured(rep, recs, prop)
        elif r["status"] not in ("ok", "Hang"):
            rep.violations.append({"kind": "raised", "witness": {}})
    elif isinstance(w.get("src"), str):
        from vf import drive, gen_macros
        from vf.c01 import product_check
        tree = _split_tree(w["src"])
        case = gen_macros.compile_tree(tree) if tree else drive.source_case(w["src"])
        print(f"=== now: compile status={case['status']} err={case.get('err', '')[:300]}")
        if case["status"] == "ok":
            for r in case["ops"]:
                print("   ", [f"{o['off']}:{o['op']}({','.join(o['ps'])})->{o['tgt']}" for o in r])
            if prop == "C13":
                from vf import c13
                c13.validate(rep, [c13.roundtrip(w["src"])], "replay")
            else:
                product_check(rep, [case], "replay", prop)
        elif case["status"].startswith("harness:"):
            print("cannot replay: " + case["err"])
            return 2
        else:
            print("(the compiler rejects this source on the current tree; outcome checks are decided by re-running the check)")
            return 2
    else:
        print("no mechanical replay for this witness kind: re-run ./check %s with the same VERIF_SEED / tier" % prop)
        return 2
    if rep.violations:
        for x in rep.violations[:5]:
            print(f"REPRODUCED kind={x['kind']} detail={json.dumps(x['witness'].get('detail', ''), default=str)[:400]}")
        return 1
    print("not reproduced on the current tree")
    return 0


if __name__ == "__main__":
    common.main_wrapper(main)
