"""C01  Compiled bytecode behaves exactly as the source program says.
Spec: spec/ExpsSemantics.tla x SSB machine in spec/CompileEquiv.tla (lock-step product)."""
from __future__ import annotations

import json
import os
import random

from vf import common, drive, gen_exps, enum_exps
from vf.pool import pmap


def product_check(rep: common.Report, cases: list[dict], tag: str, prop: str = "C01", extra=None, kind_prefix: str = "compile-equiv") -> list[tuple[int, str]]:
    """TLC: CompileEquiv on the given (accepted) cases.  Returns [(case index, kind)] of violations."""
    out = []
    B = 1500
    for k in range(0, len(cases), B):
        chunk = cases[k:k + B]
        path = os.path.join(common.scratch(), f"{prop}-{tag}-{k}.json")
        with open(path, "w") as fh:
            json.dump([drive.tlc_view(c) for c in chunk], fh)
        res = common.run_tlc("CompileEquiv", "CompileEquiv.cfg", {"CASES_FILE": path})
        os.unlink(path)
        rep.add_tlc(res)
        if res["inv_errors"] and not res["viols"]:
            raise common.MachineryError("invariant violation without VIOL line:\n" + res["out"][-3000:])
        for v in res["viols"]:
            cid = k + int(v[0]) - 1
            kind = common.tla_unquote(v[1])
            c = cases[cid]
            detail = {"routine": int(v[2]), "src_point": [common.tla_unquote(v[3]), int(v[4])], "bytecode_pos": [int(v[5]), int(v[6])],
                      "src_step": common.tla_unquote(v[7]), "bytecode_op": common.tla_unquote(v[8])}
            node = c["nodes"][detail["src_point"][1] - 1] if detail["src_point"][1] >= 1 else {}
            w = {"src": c["src"], "detail": detail, "node_kind": node.get("k", ""),
                 "ops": [[f"{o['off']}:{o['op']}({','.join(o['ps'])})->{o['tgt']}" for o in r] for r in c["ops"]]}
            if extra is not None:
                w.update(extra(c))
            rep.violation(f"{kind_prefix}:{kind}", w)
            out.append((cid, kind))
    return out


def n_enum_ok(ok, srcs, n_enum) -> int:
    """index in `ok` at which the random programs start"""
    enum = set(srcs[:n_enum])
    return sum(1 for c in ok if c["src"] in enum)


def corrupt(case: dict) -> dict | None:
    """binding self-test: change one parameter of the first op of the first non-empty routine that has a source
    body (always reachable, hence always observable)"""
    m = json.loads(json.dumps(drive.tlc_view(case)))
    m["src"] = case["src"]
    for sr in m["routines"]:
        if sr["alias"] or not (1 <= sr["rix"] <= len(m["ops"])):
            continue
        r = m["ops"][sr["rix"] - 1]
        if r and r[0]["op"] != "Jump":
            r[0]["ps"] = r[0]["ps"] + ["i:424242"]
            return m
    return None


def main() -> int:
    rep = common.Report("C01")
    rng = random.Random(common.seed() * 1009 + 1)
    thorough = common.tier() == "thorough"
    srcs = enum_exps.c01_family(thorough)
    n_enum = len(srcs)
    n_rand = 12000 if thorough else 1500
    for i in range(n_rand):
        srcs.append(gen_exps.random_program(rng, max_depth=rng.choice([1, 2, 2, 3, 3, 4] if thorough else [1, 2, 2, 3])))
    cases = pmap(drive.source_case, srcs, limit=20.0)
    rejected = {}
    ok = []
    for src, c in zip(srcs, cases):
        if c.get("_timeout") or c.get("_error"):
            rejected["harness/timeout"] = rejected.get("harness/timeout", 0) + 1
            continue
        if c["status"] != "ok":
            rejected[c["status"]] = rejected.get(c["status"], 0) + 1
            if c["status"].startswith("harness"):
                raise common.MachineryError(f"node-table walk failed on accepted program: {c['err']}\n{src}")
            continue
        ok.append(c)
    # which pass is to blame: stage snapshots of the back half of compile() for a sample, refinement-checked pass by pass
    # (spec/CompilerPipeline.tla).  The verdict about C01 stays with CompileEquiv; a pass that does not refine its input while the
    # compiled result is right (compensated downstream) is recorded in the evidence, not reported.
    from vf import pipeline
    first_random = n_enum_ok(ok, srcs, n_enum)
    sample = [c["src"] for i, c in enumerate(ok) if (i < first_random and i % (4 if thorough else 6) == 0) or first_random <= i < first_random + (3000 if thorough else 300)]
    staged = [r for r in pmap(pipeline.staged_compile, sample, limit=20.0) if r.get("status") == "ok" and r.get("complete")]
    blame, ptot = pipeline.tlc_check(staged, "main")
    rep.states += ptot["distinct"]
    rep.transitions += ptot["states"]
    blame_by_src = {staged[i]["src"]: sorted({f"{v}@{pipeline.PASS_NAME.get(pr, pr)}" for v, pr in vs}) for i, vs in blame.items()}
    rep.extra["pipeline"] = {"programs_staged": len(staged), "passes_not_refining": len(blame_by_src),
                             "examples": [{"src": k, "verdicts": v} for k, v in list(blame_by_src.items())[:3]],
                             "selftest_corrupted_rejected": pipeline.self_test(staged[3:300:30])}
    bad = product_check(rep, ok, "main", extra=lambda c: {"pipeline": blame_by_src.get(c["src"], "all passes refine / not sampled")})
    badset = {i for i, _ in bad}
    # binding self-test
    muts = []
    for i, c in enumerate(ok):
        if i in badset:
            continue
        m = corrupt(c)
        if m is not None:
            muts.append(m)
        if len(muts) >= 12:
            break
    if muts:
        tmp = common.Report("C01")
        tmp.known = []
        got = product_check(tmp, muts, "selftest")
        if len({i for i, _ in got}) != len(muts):
            raise common.MachineryError(f"C01 self-test: TLC accepted {len(muts) - len({i for i, _ in got})} corrupted compile results")
        rep.extra["selftest_corrupted_rejected"] = len(muts)
    else:
        raise common.MachineryError("C01 self-test: no conditional jump available to corrupt")
    rep.traces = len(ok)
    rep.evaluations = len(srcs)
    rep.nontrivial = len({c["src"] for c in ok if any(o["tgt"] != -1 and o["op"] != "Jump" for r in c["ops"] for o in r)})
    rep.rule = (f"{n_enum} enumerated programs (every construct shape in one-hole contexts, pairwise nesting; see vf/enum_exps.py) + "
                f"{n_rand} random programs (depth<=4); each accepted program's routines are model-checked against the compiled ops "
                "for every outcome of every test; non-trivial = distinct program whose compiled code has >=1 conditional jump")
    rep.extra["rejected_by_compiler"] = rejected
    rep.extra["accepted"] = len(ok)
    rep.extra["enumerated_family"] = n_enum
    for c in ok[:1] + ok[n_enum:n_enum + 1]:
        rep.sample({"source": c["src"], "ops": c["ops"]})
    rep.assumptions = ["Call is a two-way test (the property's machine has no call stack)",
                       "literals are plain (C04 owns literal corner cases); no flow-ending statement inside with-blocks",
                       "message-switch default is written last"]
    return rep.finish()


if __name__ == "__main__":
    common.main_wrapper(main)
