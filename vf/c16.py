"""C16  Layout, comments and alternative spellings do not change the compiled ops.  Spec: spec/Respell.tla."""
from __future__ import annotations

import hashlib
import json
import re
import os
import random

from vf import common, drive, gen_exps, gen_macros, enum_exps, litref
from vf.pool import pmap

SEPS = {"space": " ", "tab": "\t", "newline": "\n", "crlf": "\r\n", "two-spaces": "  ", "backslash-newline": " \\\n ", "block-comment": "/* c */",
        "block-comment-stars": "/** c * **/", "line-comment": " // c ; } \"\n", "comment-and-newline": "\n/* x */\n", "empty": "",
        # a comment that looks like a file attribute, but is not at the top of the file (separators stand between two tokens)
        "attribute-like-comment": "\n//?: is-ssb-script: true\n", "attribute-like-block-comment": " /* //?: is-ssb-script: 1 */ "}
PUNCT = {"(": "OPEN_PAREN", ")": "CLOSE_PAREN", "{": "OPEN_BRACE", "}": "CLOSE_BRACE", ",": "COMMA", ":": "COLON", ";": "SEMI", "[": "OPEN_BRACKET", "]": "CLOSE_BRACKET"}


LITERAL_SEEDS = [
    """def 0 { op(-1.5, 12.25, -0.5, 0.5, -12.025, 3.0, -7, 0x1f, 0, -0, 255, 0b11, 0o17, -0X10); @l; jump @l; }""",
    """def 0 { op2("He said \\"no\\"", 'it\\'s', "a'b", 'a"b', "\\"x", "x\\"", '\\'', "plain", '', "\\"\\""); }""",
    """def 0 for actor ACTOR_X { op3(Position<'m', 1.5, -2>, Position<"m'", 0.5, 3.5>, Position<'q"', 10, 0>); §e; }
def 1 for object 3 { msg({english="it's", german='"q"', french="a"}); Turn2DirectionLives(-3.25, A2); }
def 2 for performer 0 { if ($V == -0x0A) { op(1.50, "x'"); } switch ($W) { case 17: case -1: f("\\'"); break; } }""",
    """coro C { with (actor A) { op(-100.001); } $V = 0b1010; $V -= 1.75; $X = scn[0x1, 2]; }""",
]


MULTILINE_SEEDS = [
    'def 0 { msg("""one\ntwo"""); msg2(\'\'\'a\n    b\n    c\'\'\', 1); end; }',
    'def 0 {\n    talk({english="""\n        Hello\n        World\n        """, german="x"});\n    message_SwitchTalk ($V) {\n        case 1: """l1\nl2"""\n        default: "d"\n    }\n    return;\n}',
]


def tokenize(src: str) -> list[dict]:
    from antlr4 import InputStream
    from explorerscript.antlr.ExplorerScriptLexer import ExplorerScriptLexer
    lx = ExplorerScriptLexer(InputStream(src))
    lx.removeErrorListeners()
    toks = []
    for t in lx.getAllTokens():
        kind = PUNCT.get(t.text) or (lx.ruleNames[t.type - 1] if 0 < t.type <= len(lx.ruleNames) else "LIT_" + t.text)
        toks.append({"k": kind, "text": t.text, "f": []})
    # facts about the context of a token (syntactic, from the neighbouring tokens)
    stack = []
    for i, t in enumerate(toks):
        prev = toks[i - 1] if i else {"k": "", "text": ""}
        nxt = toks[i + 1] if i + 1 < len(toks) else {"k": "", "text": ""}
        if t["k"] == "AT" and prev["k"] not in ("JUMP", "CALL") and nxt["k"] == "IDENTIFIER":
            t["f"].append("label-definition")
        if t["k"] == "FOR" and i >= 2 and toks[i - 2]["k"] == "DEF" and nxt["text"] in ("actor", "object", "performer"):
            t["f"].append("routine-target")
        if t["k"] in ("STRING_LITERAL",):
            body = t["text"][1:-1]
            if not any(c in body for c in "'\"\\\n\r"):
                t["f"].append("plain-content")
            elif "\n" not in body and "\r" not in body and "\\" not in re.sub(r"\\['\"]", "", body):
                t["f"].append("quotes-only-content")   # every backslash escapes a quote character
            if prev["k"] not in ("IMPORT", "OPEN_SHARP"):
                t["f"].append("string-value-context")
        if t["k"] == "OPEN_PAREN":
            # an argument list: `name(` of an operation or `~name(` of a macro call - not the parameter list of a macro definition
            stack.append((i, prev["k"] == "MACRO_CALL" or (prev["k"] == "IDENTIFIER" and not (i >= 2 and toks[i - 2]["k"] == "MACRO"))))
        if t["k"] == "CLOSE_PAREN" and stack:
            j, is_call = stack.pop()
            if is_call and i - j > 1 and prev["k"] != "COMMA":
                t["f"].append("closes-nonempty-arglist")
    return toks


def respell_int(text: str, base: str) -> str:
    v = litref.read_int(text)
    sign = "-" if v < 0 or text.startswith("-") else ""
    m = abs(v)
    return {"dec": f"{sign}{m}", "hex": f"{sign}0x{m:x}", "HEX": f"{sign}0X{m:X}", "oct": f"{sign}0o{m:o}", "bin": f"{sign}0b{m:b}"}[base]


def render(toks: list[dict], seps: list[str], alts: dict) -> str:
    out = []
    close_after = None
    for i, t in enumerate(toks):
        text = t["text"]
        a = alts.get(i)
        if a:
            if a[0] == "SwapLabelSigil":
                text = "§" if text == "@" else "@"
            elif a[0] == "LegacyTarget":
                text = "for_" + toks[i + 1]["text"] + "("
                close_after = i + 2
            elif a[0] == "TrailingComma":
                text = "," + text
            elif a[0] == "IntBase":
                text = respell_int(text, a[1])
            elif a[0] == "DecimalLeadingZeros":
                neg = text.startswith("-")
                text = ("-" if neg else "") + "0" * int(a[1]) + text.lstrip("-")
            elif a[0] == "QuoteStyle":
                q = {"single": "'", "double": '"', "triple-single": "'''", "triple-double": '"""'}[a[1]]
                if "plain-content" in t["f"]:
                    text = q + text[1:-1] + q
                else:   # quotes-only content: the value with exactly the delimiter character escaped
                    text = q + litref.read_single(text).replace(q, "\\" + q) + q
        if alts.get(i - 1, [""])[0] == "LegacyTarget":
            text = ""          # the kind word was merged into for_<kind>(
        out.append(text)
        if close_after == i:
            out.append(")")
            close_after = None
        if i < len(seps):
            sep = SEPS[seps[i]]
            if alts.get(i, [""])[0] == "LegacyTarget" or (alts.get(i - 1, [""])[0] == "LegacyTarget"):
                sep = "" if alts.get(i, [""])[0] == "LegacyTarget" else sep
            out.append(sep)
    return "".join(out)


def digest(comp: dict) -> str:
    if comp["status"] != "ok":
        return "rejected:" + comp["status"]
    sm = json.loads(comp["sm"]) if comp["sm"] else {"pos_marks": [], "macros": {"pos_marks": []}}
    marks = sorted([m[4:] for m in sm["pos_marks"]] + [y[2][4:] for y in sm["macros"]["pos_marks"]])
    return hashlib.sha1(json.dumps([comp["ops"], comp["infos"], marks], sort_keys=True).encode()).hexdigest()


def run_chain(case: dict) -> dict:
    """case = {src, steps: [{a, i, w}], cumulative}"""
    toks = tokenize(case["src"])
    base_seps = ["space"] * (len(toks) - 1)
    base_text = render(toks, base_seps, {})
    base = drive.compile_text(base_text)
    orig = drive.compile_text(case["src"])
    rec = {"hasAttribute": False, "toks": [{"k": t["k"], "f": t["f"]} for t in toks], "baseStatus": base["status"], "baseDigest": digest(base), "steps": [], "src": case["src"],
           "origDigest": digest(orig)}
    if base["status"] != "ok":
        return rec
    # the canonical one-space spelling is itself a re-spelling of the seed: step 0
    seps, alts = list(base_seps), {}
    crlf_all = False
    texts = []
    for s in case["steps"]:
        if not case.get("cumulative", True):
            seps, alts = list(base_seps), {}
            crlf_all = False
        if s["a"] == "SetSeparator":
            seps[s["i"] - 1] = s["w"]
        elif s["a"] == "FileLineEndings":
            crlf_all = True
        else:
            alts[s["i"] - 1] = (s["a"], s.get("w", ""))
        text = render(toks, seps, alts)
        if crlf_all:
            text = text.replace("\r\n", "\n").replace("\n", "\r\n")
        c = drive.compile_text(text)
        rec["steps"].append({"a": s["a"], "i": s["i"], "w": s.get("w", ""), "status": c["status"], "digest": digest(c), "err": c["err"]})
        texts.append(text)
    rec["texts"] = texts[-3:]
    rec["origAgrees"] = rec["origDigest"] == rec["baseDigest"]
    return rec


ATTR_BODIES = ["def 0 {\n    a(1);\n    @l;\n    Jump(@l);\n}\n", "coro C {\n    x('s');\n    Return();\n}\ndef 1 for actor A {\n    Hold();\n}\n"]
ATTR_W = {"trailing-spaces": "//?: is-ssb-script: true   \n", "trailing-tab": "//?: is-ssb-script: true\t\n", "spaces-after-colon": "//?:   is-ssb-script:    true\n",
          "crlf-line": "//?: is-ssb-script: true\r\n", "blank-line-after": "//?: is-ssb-script: true\n\n"}


def run_attr_case(body: str) -> dict:
    """a source with the `is-ssb-script` attribute line: spacing variants of that line must not change what is compiled"""
    base = drive.compile_text("//?: is-ssb-script: true\n" + body)
    rec = {"hasAttribute": True, "toks": [], "baseStatus": base["status"], "baseDigest": digest(base), "steps": [], "src": "//?: is-ssb-script: true\n" + body,
           "origDigest": digest(base), "origAgrees": True, "texts": []}
    for w, line in ATTR_W.items():
        c = drive.compile_text(line + body)
        rec["steps"].append({"a": "AttributeSpacing", "i": 0, "w": w, "status": c["status"], "digest": digest(c), "err": c["err"]})
        rec["texts"].append(line + body)
    return rec


def plan(rng: random.Random, src: str, nsteps: int) -> list[dict]:
    toks = tokenize(src)
    n = len(toks)
    steps = []
    punct = set(PUNCT.values())
    for _ in range(nsteps):
        kind = rng.choice(["SetSeparator"] * 5 + ["SwapLabelSigil", "LegacyTarget", "TrailingComma", "IntBase", "IntBase", "DecimalLeadingZeros", "QuoteStyle", "QuoteStyle"])
        if kind == "SetSeparator" and n > 1:
            i = rng.randrange(1, n)
            w = rng.choice(list(SEPS))
            if w == "empty":
                a, b = toks[i - 1]["k"], toks[i]["k"]
                if not ((a in punct or b in punct) and not (a == "STRING_LITERAL" and b == "STRING_LITERAL")):
                    w = "space"
            steps.append({"a": kind, "i": i, "w": w})
            continue
        want = {"SwapLabelSigil": lambda t: "label-definition" in t["f"], "LegacyTarget": lambda t: "routine-target" in t["f"],
                "TrailingComma": lambda t: "closes-nonempty-arglist" in t["f"], "IntBase": lambda t: t["k"] == "INTEGER",
                "DecimalLeadingZeros": lambda t: t["k"] == "DECIMAL", "QuoteStyle": lambda t: t["k"] == "STRING_LITERAL" and ("plain-content" in t["f"] or "quotes-only-content" in t["f"])}[kind]
        cand = [i for i, t in enumerate(toks) if want(t)]
        if not cand:
            continue
        i = rng.choice(cand)
        w = ""
        if kind == "IntBase":
            w = rng.choice(["dec", "hex", "HEX", "oct", "bin"])
        if kind == "DecimalLeadingZeros":
            w = rng.choice(["0", "1", "2"])
        if kind == "QuoteStyle":
            opts = ["single", "double"] + (["triple-single", "triple-double"] if "string-value-context" in toks[i]["f"] and "plain-content" in toks[i]["f"] else [])
            w = rng.choice(opts)
        steps.append({"a": kind, "i": i + 1, "w": w})
    return steps


def validate(rep, recs, tag):
    out = []
    B = 800
    for k in range(0, len(recs), B):
        path = os.path.join(common.scratch(), f"c16-{tag}-{k}.json")
        with open(path, "w") as fh:
            json.dump([{"hasAttribute": bool(r.get("hasAttribute")), "toks": r["toks"], "baseStatus": r["baseStatus"], "baseDigest": r["baseDigest"],
                        "steps": [{x: s[x] for x in ("a", "i", "w", "status", "digest")} for s in r["steps"]]} for r in recs[k:k + B]], fh)
        res = common.run_tlc("Respell", "Respell.cfg", {"CASES_FILE": path})
        os.unlink(path)
        rep.add_tlc(res)
        if res["inv_errors"] and not res["viols"]:
            raise common.MachineryError("invariant violation without VIOL line:\n" + res["out"][-3000:])
        for v in res["viols"]:
            out.append((k + int(v[0]) - 1, common.tla_unquote(v[1]), int(v[2])))
    return out


def main() -> int:
    rep = common.Report("C16")
    rng = random.Random(common.seed() * 223 + 16)
    thorough = common.tier() == "thorough"
    seeds = enum_exps.c01_family(False)[:: (60 if not thorough else 10)]
    seeds += [gen_exps.random_program(rng, 3) for _ in range(150 if not thorough else 1500)]
    seeds += [t["files"]["main.exps"] for t in (gen_macros.dag_program(3, {(0, 1), (1, 2)}, (2, 0, 1), rng, rich=True, nparams=[1, 2, 0]) for _ in range(30 if not thorough else 1000))]
    cases = [{"src": s, "steps": plan(rng, s, rng.randint(3, 8)) + ([{"a": "FileLineEndings", "i": 0, "w": "crlf"}] if k % 2 == 0 else []), "cumulative": True}
             for k, s in enumerate(seeds)]
    cases += [{"src": s, "steps": [{"a": "FileLineEndings", "i": 0, "w": "crlf"}], "cumulative": False} for s in LITERAL_SEEDS + MULTILINE_SEEDS]
    # exhaustive layer: every separator at every token boundary of a few seeds (each from the base spelling)
    for s in seeds[:3] + seeds[-2:] if not thorough else seeds[:60]:
        toks = tokenize(s)
        punct = set(PUNCT.values())
        steps = []
        for i in range(1, len(toks)):
            for w in SEPS:
                if w == "empty":
                    a, b = toks[i - 1]["k"], toks[i]["k"]
                    if not ((a in punct or b in punct) and not (a == "STRING_LITERAL" and b == "STRING_LITERAL")):
                        continue
                steps.append({"a": "SetSeparator", "i": i, "w": w})
        for j in range(0, len(steps), 40):
            cases.append({"src": s, "steps": steps[j:j + 40], "cumulative": False})
    # literal layer: every alternative spelling of every literal of hand-written literal-rich seeds (each from the base spelling)
    for s in LITERAL_SEEDS:
        toks = tokenize(s)
        steps = []
        for i, t in enumerate(toks):
            if t["k"] == "INTEGER":
                steps += [{"a": "IntBase", "i": i + 1, "w": w} for w in ("dec", "hex", "HEX", "oct", "bin")]
            if t["k"] == "DECIMAL":
                steps += [{"a": "DecimalLeadingZeros", "i": i + 1, "w": w} for w in ("0", "1", "2")]
            if t["k"] == "STRING_LITERAL" and ("plain-content" in t["f"] or "quotes-only-content" in t["f"]):
                ws = ["single", "double"] + (["triple-single", "triple-double"] if "plain-content" in t["f"] and "string-value-context" in t["f"] else [])
                steps += [{"a": "QuoteStyle", "i": i + 1, "w": w} for w in ws]
            if "label-definition" in t["f"]:
                steps.append({"a": "SwapLabelSigil", "i": i + 1, "w": ""})
            if "routine-target" in t["f"]:
                steps.append({"a": "LegacyTarget", "i": i + 1, "w": ""})
            if "closes-nonempty-arglist" in t["f"]:
                steps.append({"a": "TrailingComma", "i": i + 1, "w": ""})
        for j in range(0, len(steps), 40):
            cases.append({"src": s, "steps": steps[j:j + 40], "cumulative": False})
    recs = pmap(run_chain, cases, limit=60.0, chunk=4)
    recs += pmap(run_attr_case, ATTR_BODIES, limit=60.0, chunk=1)
    for r in recs:
        if r.get("_error") or r.get("_timeout"):
            raise common.MachineryError("harness failure: " + str(r)[-500:])
    # the one-space canonical spelling must itself compile like the seed as written
    for r in recs:
        if r["baseStatus"] == "ok" and not r.get("origAgrees", True):
            rep.violation("respelling:canonical-spacing-changes-result", {"src": r["src"]})
    for i, kind, l in validate(rep, recs, "main"):
        r = recs[i]
        if kind == "illegal-respelling":
            raise common.MachineryError("harness applied a re-spelling the specification does not allow: " + json.dumps(r["steps"][l - 1]))
        rep.violation("respelling:" + kind, {"src": r["src"], "step": r["steps"][l - 1] if l else None, "steps_so_far": r["steps"][:l], "text": (r.get("texts") or [""])[-1][:1500]})
    good = [r for r in recs if r["baseStatus"] == "ok" and len(r["steps"]) >= 2][:3]
    muts = []
    for r in good:
        m = json.loads(json.dumps(r)); m["steps"][1]["digest"] = "0" * 40; muts.append(m)
    tmp = common.Report("C16"); tmp.known = []
    got = validate(tmp, muts, "selftest")
    if not muts or len(got) != len(muts):
        raise common.MachineryError("C16 self-test: changed compile digests accepted")
    ill = json.loads(json.dumps(good[0])); ill["steps"][0] = dict(ill["steps"][0], a="SetSeparator", i=1, w="empty"); ill["toks"][0]["k"] = "IDENTIFIER"; ill["toks"][1]["k"] = "IDENTIFIER"
    g2 = validate(tmp, [ill], "selftest2")
    if not g2 or g2[0][1] != "illegal-respelling":
        raise common.MachineryError("C16 self-test: the specification accepted gluing two identifiers")
    rep.extra["selftest_corrupted_rejected"] = len(muts) + 1
    rep.traces = sum(len(r["steps"]) for r in recs)
    rep.evaluations = rep.traces
    rep.nontrivial = len({(r["src"], json.dumps(r["steps"])) for r in recs if any(s["a"] != "SetSeparator" or s["w"] not in ("space",) for s in r["steps"])})
    rep.rule = (f"{len(seeds)} seed programs (enumerated shapes, random programs, macro programs); random cumulative chains of 3-8 re-spellings "
                "(separators incl. tabs/CRLF/backslash-newline/block and line comments/empty where the spec allows, @ vs section sign, for_actor(X), trailing "
                "commas, integer bases, decimal leading zeros, quote styles) and every separator at every token boundary of a few seeds; each intermediate "
                "text is compiled by the real compiler and TLC validates the chain against Respell.tla; non-trivial = distinct chain with a non-space step")
    rep.sample({"seed": recs[0]["src"][:400], "steps": recs[0]["steps"][:4], "last_text": (recs[0].get("texts") or [""])[-1][:400]})
    rep.assumptions = ["CanAbut is conservative: an empty separator is only used next to bracket/comma/colon/semicolon tokens"]
    return rep.finish()


if __name__ == "__main__":
    common.main_wrapper(main)
