"""C08  Compile-time source map: every emitted op maps to where it was written.  Spec: spec/SrcMapEquiv.tla."""
from __future__ import annotations

import json
import os
import random

from vf import common, drive, gen_exps, gen_macros, enum_exps
from vf.pool import pmap

NOSM = {"kind": "none", "file": "", "macro": "", "line": -1, "col": -1, "ci": [], "ra": -1}


def join_map(case: dict) -> dict:
    """attach the recorded source-map entry to every op record (encoding only)"""
    sm = json.loads(case["sm"])
    direct, macro = sm["map"], sm["macros"]["map"]
    ops = []
    for r in case["ops"]:
        rr = []
        for o in r:
            o = dict(o)
            k = str(o["off"])
            if k in direct:
                o["sm"] = dict(NOSM, kind="direct", line=direct[k][0], col=direct[k][1])
            elif k in macro:
                e = macro[k]
                ci = [] if e[4] is None else ["<none>" if e[4][0] is None else str(e[4][0]), str(e[4][1]), str(e[4][2])]
                o["sm"] = {"kind": "macro", "file": "<none>" if e[0] is None else str(e[0]), "macro": e[1], "line": e[2], "col": e[3], "ci": ci,
                           "ra": -1 if e[5] is None else e[5]}
            else:
                o["sm"] = dict(NOSM)
            rr.append(o)
        ops.append(rr)
    val = lambda m: f"p:{m[4].encode().hex()},{m[5]},{m[6]},{m[7]},{m[8]}"
    recorded = [{"val": val(m)} for m in sm["pos_marks"]] + [{"val": val(y[2])} for y in sm["macros"]["pos_marks"]]
    emitted = [p for r in case["ops"] for o in r for p in o["ps"] if p.startswith("p:")]
    expected_direct = [f"p:{pm['name'].encode().hex()},{pm['xo']},{pm['yo']},{pm['xr']},{pm['yr']}" for pm in case["posmarks"] if pm["rk"] == "r"]
    out = {k: case[k] for k in ("nodes", "par", "routines", "macros")}
    out.update({"ops": ops, "recordedMarks": recorded, "emittedMarks": emitted, "recordedDirect": sorted(val(m) for m in sm["pos_marks"]),
                "expectedDirect": sorted(expected_direct), "directMarksExact": len(case["macros"]) == 0,
                "includedReported": case.get("included", [])})
    return out


def validate(rep, cases, views, tag):
    out = []
    B = 1200
    for k in range(0, len(views), B):
        path = os.path.join(common.scratch(), f"c08-{tag}-{k}.json")
        with open(path, "w") as fh:
            json.dump(views[k:k + B], fh)
        res = common.run_tlc("SrcMapEquiv", "SrcMapEquiv.cfg", {"CASES_FILE": path})
        os.unlink(path)
        rep.add_tlc(res)
        if res["inv_errors"] and not res["viols"]:
            raise common.MachineryError("invariant violation without VIOL line:\n" + res["out"][-3000:])
        for v in res["viols"]:
            out.append((k + int(v[0]) - 1, common.tla_unquote(v[1]), {"routine": int(v[2]), "src_point": [common.tla_unquote(v[3]), int(v[4])],
                                                                      "bytecode_pos": [int(v[5]), int(v[6])], "offset": int(v[7])}))
    return out


def main() -> int:
    rep = common.Report("C08")
    rng = random.Random(common.seed() * 613 + 8)
    thorough = common.tier() == "thorough"
    srcs = enum_exps.c01_family(False)[:: (9 if not thorough else 2)]
    for _ in range(1200 if not thorough else 10000):
        srcs.append(gen_exps.random_program(rng, max_depth=rng.choice([1, 2, 3])))
    # the same kind of programs in unusual layouts (conditions and argument lists spread over several lines, several statements per line,
    # comments between tokens, tabs): expected positions come from the parse tree of the text as laid out
    from vf import c16
    n_relaid = 0
    for base in srcs[:: (20 if not thorough else 8)]:
        try:
            toks = c16.tokenize(base)
        except Exception:
            continue
        seps = ["space"] * (len(toks) - 1)
        for k in range(len(seps)):
            r = rng.random()
            if r < 0.25:
                seps[k] = rng.choice(["newline", "crlf", "comment-and-newline", "tab", "two-spaces", "block-comment"])
        srcs.append(c16.render(toks, seps, {}))
        n_relaid += 1
    rep.extra["relaid_out_programs"] = n_relaid
    cases = [c for c in pmap(drive.source_case, srcs) if c.get("status") == "ok"]
    trees = [t for t in gen_macros.family(rng, thorough)]
    tc = pmap(gen_macros.compile_tree, trees, chunk=4)
    for c in tc:
        if c.get("_error") or c.get("_timeout") or str(c.get("status", "")).startswith("harness"):
            raise common.MachineryError("harness failure on macro tree: " + str(c)[:300])
    cases += [c for c in tc if c["status"] == "ok"]
    views = [join_map(c) for c in cases]
    seen = set()
    for i, kind, det in validate(rep, cases, views, "main"):
        c = cases[i]
        key = (i, kind)
        if key in seen:
            continue
        seen.add(key)
        o = next((x for r in views[i]["ops"] for x in r if x["off"] == det["offset"]), None)
        node = c["nodes"][det["src_point"][1] - 1] if det["src_point"][1] >= 1 else {}
        rep.violation("source-map:" + kind, {"src": c["src"], "detail": det, "entry": o["sm"] if o else None, "op": o["op"] if o else None,
                                             "node": {k: node.get(k) for k in ("k", "line", "col", "name")}})
    # self-tests: shift one entry's column / drop one entry / shift a return address
    good = [i for i in range(len(views)) if i not in {s[0] for s in seen}]
    muts = []
    for i in good:
        v = views[i]
        flat = [(a, b) for a, r in enumerate(v["ops"]) for b, o in enumerate(r) if o["op"] != "Jump"]
        mac = [(a, b) for a, b in flat if v["ops"][a][b]["sm"]["kind"] == "macro"]
        if len(muts) < 4 and flat and v["ops"][flat[0][0]][flat[0][1]]["sm"]["kind"] == "direct":
            m = json.loads(json.dumps(v)); m["ops"][flat[0][0]][flat[0][1]]["sm"]["col"] += 1; muts.append(m)
            m = json.loads(json.dumps(v)); m["ops"][flat[0][0]][flat[0][1]]["sm"] = dict(NOSM); muts.append(m)
        if mac and len(muts) < 12:
            m = json.loads(json.dumps(v))
            ra = m["ops"][mac[-1][0]][mac[-1][1]]["sm"]["ra"]
            for a, b in mac:
                if m["ops"][a][b]["sm"]["ra"] == ra:
                    m["ops"][a][b]["sm"]["ra"] = m["ops"][mac[-1][0]][mac[-1][1]]["off"]
            muts.append(m)
            m = json.loads(json.dumps(v)); m["ops"][mac[0][0]][mac[0][1]]["sm"]["macro"] = "other"; muts.append(m)
        if len(muts) >= 12:
            break
    tmp = common.Report("C08"); tmp.known = []
    got = validate(tmp, None, muts, "selftest")
    if not muts or len({g[0] for g in got}) != len(muts):
        raise common.MachineryError(f"C08 self-test: {len(muts) - len({g[0] for g in got})} of {len(muts)} corrupted source maps accepted")
    rep.extra["selftest_corrupted_rejected"] = len(muts)
    rep.traces = len(cases)
    rep.evaluations = len(srcs) + len(trees)
    rep.nontrivial = len({c["src"] for c, v in zip(cases, views) if any(o["sm"]["kind"] == "macro" for r in v["ops"] for o in r)})
    rep.rule = (f"{len(srcs)} single-file programs (enumerated shapes + random, several statements per line, any indentation) and {len(trees)} macro programs "
                "(all DAGs <=4 macros x orders, rich bodies, 1-3 files); the real source map is attached to the compiled ops and TLC checks it at every "
                "Sync of the source x bytecode product plus the static layout scan; non-trivial = distinct program with >=1 macro entry")
    ex = next((c for c, v in zip(cases, views) if any(o["sm"]["kind"] == "macro" for r in v["ops"] for o in r)), cases[0])
    rep.sample({"src": ex["src"], "source_map": json.loads(ex["sm"])})
    rep.assumptions = ["compiler-inserted jumps and the implicit final Return only need an entry (they have no statement of their own)",
                       "a CaseText op may be mapped to its case header or to the message switch statement",
                       "generated macro bodies begin with an operation, not with a nested macro call",
                       "cases where behaviour itself diverges are C01/C05's business and skipped here"]
    return rep.finish()


if __name__ == "__main__":
    common.main_wrapper(main)
