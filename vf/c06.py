"""C06  The decompiler always answers; its SsbScript fallback is marked and exact.
Spec: spec/DecompOutcome.tla (outcome-trace specification)."""
from __future__ import annotations

import json
import os
import random

from vf import common, decomp, gen_flow, shapes
from vf.c02 import flow_inputs, run_decompile, fmt


def unstructurable(rng: random.Random) -> list[dict]:
    """flow graphs the structuring passes do not handle: irreducible loops, jumps into blocks, routines that are
    a single Jump into another routine, shared case bodies, ctx op followed by a branch, case-less message switch,
    overlapping loops"""
    def mk(rs, infos=None):
        out = []
        off = 0
        for r in rs:
            rr = []
            for name, ps, tgt in r:
                rr.append({"off": off, "op": name, "ps": ps, "tgt": tgt, "pseudo": False})
                off += 1
            out.append(rr)
        infos = infos or [{"kind": "GENERIC", "target": "i:0", "coro": ""}] + [{"kind": "ACTOR", "target": "c:A", "coro": ""}] * (len(rs) - 1)
        return {"routines": out, "infos": infos, "origin": "unstructurable"}
    B = lambda k, t: ("Branch", ["c:$V", f"i:{k}"], t)
    fam = []
    # irreducible loop: two entries into a cycle
    fam.append(mk([[B(1, 3), ("a", [], -1), ("Jump", [], 4), ("b", [], -1), ("c", [], -1), B(2, 1), ("Return", [], -1)]]))
    fam.append(mk([[B(1, 2), ("a", [], -1), ("b", [], -1), B(2, 1), ("Jump", [], 2)]]))
    # jump into a block
    fam.append(mk([[B(1, 3), ("Jump", [], 4), ("Return", [], -1), ("a", [], -1), ("b", [], -1), ("Return", [], -1)]]))
    fam.append(mk([[("a", [], -1), B(1, 4), ("b", [], -1), B(2, 5), ("c", [], -1), ("d", [], -1), ("End", [], -1)]]))
    # routine = single jump into another routine
    fam.append(mk([[("a", [], -1), ("Return", [], -1)], [("Jump", [], 0)]]))
    fam.append(mk([[("Jump", [], 1)], [("a", [], -1), ("Hold", [], -1)]]))
    # shared case bodies
    fam.append(mk([[("Switch", ["c:$S"], -1), ("Case", ["i:1"], 5), ("Case", ["i:2"], 5), ("Case", ["i:3"], 7), ("Jump", [], 8),
                    ("a", [], -1), ("Jump", [], 7), ("b", [], -1), ("Return", [], -1)]]))
    fam.append(mk([[("Switch", ["c:$S"], -1), ("Case", ["i:1"], 4), ("Case", ["i:2"], 6), ("Jump", [], 7),
                    ("a", [], -1), ("Jump", [], 6), ("b", [], -1), ("c", [], -1), ("Return", [], -1)]]))
    # ctx op followed by a branch / jump / stop
    fam.append(mk([[("lives", ["c:A"], -1), B(1, 3), ("a", [], -1), ("Return", [], -1)]]))
    fam.append(mk([[("object", ["i:2"], -1), ("Switch", ["c:$S"], -1), ("Case", ["i:1"], 4), ("Return", [], -1), ("a", [], -1), ("End", [], -1)]]))
    # message switch without cases / with foreign ops in between
    fam.append(mk([[("message_SwitchTalk", ["c:$V"], -1), ("a", [], -1), ("Return", [], -1)]]))
    fam.append(mk([[("message_SwitchMonologue", ["i:1"], -1), ("Return", [], -1)]]))
    fam.append(mk([[("a", [], -1), ("CaseText", ["i:1", "s:6869"], -1), ("Return", [], -1)]]))
    # overlapping loops
    fam.append(mk([[("a", [], -1), ("b", [], -1), B(1, 0), ("c", [], -1), B(2, 1), ("Return", [], -1)]]))
    fam.append(mk([[("a", [], -1), B(1, 4), ("b", [], -1), B(2, 0), ("c", [], -1), B(3, 2), ("End", [], -1)]]))
    # well-formed input on which the pinned tree did not terminate
    fam.append(mk([[B(1, 2), ("Return", [], -1), ("Jump", [], 0)]]))
    out = [f for f in fam if gen_flow.well_formed(f["routines"])]
    if len(out) != len(fam):
        raise common.MachineryError("an 'unstructurable' witness is not well-formed")
    # the same graphs in other routine tables: alias (empty) routines first / in between / last, several in a row, and as coroutine scripts
    # whose name table is a global list (the fallback hands the tables to the SsbScript decompiler)
    tabled = []
    for f in fam[::2] + fam[8:9]:
        for where in ("first", "last", "middle", "first-two", "coro-first", "coro-last"):
            rs_ = [list(r) for r in f["routines"]]
            if where in ("first", "coro-first"):
                rs_ = [[]] + rs_
            elif where == "first-two":
                rs_ = [[], []] + rs_
            elif where in ("last", "coro-last"):
                rs_ = rs_ + [[]]
            else:
                rs_ = rs_[:1] + [[], []] + rs_[1:]
            if where.startswith("coro"):
                infos = [{"kind": "COROUTINE", "target": "i:0", "coro": f"CORO_{i}"} for i in range(len(rs_))]
            else:
                infos = [{"kind": "GENERIC", "target": "i:0", "coro": ""}] + [{"kind": "ACTOR", "target": "i:0" if i % 2 else "c:A", "coro": ""} for i in range(1, len(rs_))]
            tabled.append({"routines": rs_, "infos": infos, "origin": "unstructurable-tables"})
    out += [t for t in tabled if gen_flow.well_formed(t["routines"])]
    # random variations: bigger random flows are mostly unstructurable
    for _ in range(300):
        f = gen_flow.random_flow(rng, rng.choice([8, 10, 12]))
        if f:
            out.append(dict(f, origin="unstructurable-random"))
    return out


def fell_back_unmarked(text: str) -> bool:
    """the text does not BEGIN with the marker line but carries it (or the fallback's warning comment) further down: the decompiler did
    fall back - the outcome machine then rejects the first line"""
    return decomp.MARKER.strip() in text or "Failed to normally decompile this script" in text


def main() -> int:
    rep = common.Report("C06")
    rng = random.Random(common.seed() * 577 + 6)
    thorough = common.tier() == "thorough"
    cases, stats = flow_inputs(rng, thorough)
    un = unstructurable(rng)
    cases += un
    stats["unstructurable"] = len(un)
    recs = run_decompile(cases)
    tcases = []
    # A call that has not returned within the hard limit is INCONCLUSIVE, not a violation: the property demands an
    # answer, not a deadline (observed: a 3-op routine on which convert() answers after 4.5 minutes).  Counted below.
    timeouts = [r for r in recs if r["status"] == "Hang"]
    recs = [r for r in recs if r["status"] != "Hang"]
    for r in recs:
        if r["status"] != "ok":
            trace = ["start", "raised"]
        elif not r["fallback"] and not fell_back_unmarked(r["text"]):
            trace = ["start", "structured"]
        else:
            trace = ["start", "abort", "fallback"]
            if r["recomp"]["status"] == "ok":
                trace.append("recompiled")
            else:
                trace.append("recompile-raised")
        rc = r["recomp"] or {}
        tcases.append({"trace": trace, "firstLine": r["text"].split("\n", 1)[0] if r["text"] else "",
                       "inp": r["inp"] if trace[1] == "abort" else [], "out": rc.get("ops", []) if trace[1] == "abort" else [],
                       "infoIn": r["infoIn"] if trace[1] == "abort" else [], "infoOut": rc.get("infos", []) if trace[1] == "abort" else []})

    def validate(tc, tag):
        path = os.path.join(common.scratch(), f"c06-{tag}.json")
        with open(path, "w") as fh:
            json.dump(tc, fh)
        res = common.run_tlc("DecompOutcome", "DecompOutcome.cfg", {"CASES_FILE": path})
        os.unlink(path)
        if res["inv_errors"] and not res["viols"]:
            raise common.MachineryError("invariant violation without VIOL line:\n" + res["out"][-3000:])
        return res
    res = validate(tcases, "main")
    rep.add_tlc(res)
    for v in res["viols"]:
        cid = int(v[0]) - 1
        r = recs[cid]
        rep.violation(f"decompile-outcome:{common.tla_unquote(v[1])}:{common.tla_unquote(v[3])}",
                      {"input": fmt(r["inp"]), "status": r["status"], "err": r["err"], "text": r["text"][:1500], "tags": shapes.tags(r["inp"]),
                       "origin": r["origin"], "recompile": (r["recomp"] or {}).get("status", ""), "recompile_err": (r["recomp"] or {}).get("err", "")})
    # self-test: a raised / unmarked / inexact trace must be rejected
    fb = [t for t in tcases if t["trace"][-1] == "recompiled"]
    muts = [{"trace": ["start", "raised"], "firstLine": "", "inp": [], "out": [], "infoIn": [], "infoOut": []}]
    if fb:
        m = json.loads(json.dumps(fb[0])); m["firstLine"] = "// is-ssb-script: true"; muts.append(m)
        m = json.loads(json.dumps(fb[0]))
        for rt in m["out"]:
            if rt:
                rt[0]["ps"] = rt[0]["ps"] + ["i:1"]
                break
        muts.append(m)
    r2 = validate(muts, "selftest")
    if len(r2["viols"]) != len(muts):
        raise common.MachineryError("C06 self-test: a raised/unmarked/inexact outcome trace was accepted")
    rep.extra["selftest_corrupted_rejected"] = len(muts)
    outcomes = {}
    for t in tcases:
        outcomes["/".join(t["trace"][1:])] = outcomes.get("/".join(t["trace"][1:]), 0) + 1
    rep.extra["outcomes"] = outcomes
    rep.extra["timeouts_inconclusive"] = {"count": len(timeouts), "examples": [fmt(r["inp"]) for r in timeouts[:3]]}
    rep.extra["families"] = stats
    rep.traces = len(tcases)
    rep.evaluations = len(cases)
    rep.nontrivial = len({json.dumps(r["inp"]) for r in recs if r["fallback"] or r["status"] != "ok"})
    rep.rule = ("well-formed routine sets: " + json.dumps(stats) + "; each convert() call is recorded as an outcome trace and validated by TLC "
                "against DecompOutcome.tla; non-trivial = distinct input that did not decompile to structured text (fallback, raise or hang)")
    fbr = next((r for r in recs if r["fallback"]), None)
    if fbr:
        rep.sample({"input": fmt(fbr["inp"]), "fallback_text": fbr["text"][-600:]})
    rep.sample({"input": fmt(recs[0]["inp"]), "trace": tcases[0]["trace"]})
    rep.assumptions = ["a convert() call that does not return within 10 s (hard limit, worker killed) is inconclusive and skipped (counted in timeouts_inconclusive)"]
    return rep.finish()


if __name__ == "__main__":
    common.main_wrapper(main)
