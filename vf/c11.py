"""C11  Results depend only on the input, not on what was processed before.  Spec: spec/ProcessState.tla."""
from __future__ import annotations

import gc
import hashlib
import itertools
import json
import multiprocessing as mp
import os
import random

from vf import common, canon, decomp, drive, gen_flow, gen_exps, idalloc

B = lambda k, t: {"op": "Branch", "ps": ["c:$V", f"i:{k}"], "tgt": t}
P = lambda n: {"op": n, "ps": [], "tgt": -1}
J = lambda t: {"op": "Jump", "ps": [], "tgt": t}


def rs(*ops):
    return [[dict(o, off=i, pseudo=False) for i, o in enumerate(ops)]]


INFO1 = [{"kind": "GENERIC", "target": "i:0", "coro": ""}]
SETS = {
    "D-if": rs(P("a"), B(1, 4), P("b"), J(5), P("c"), P("Return")),
    "D-switch": rs({"op": "Switch", "ps": ["c:$S"], "tgt": -1}, {"op": "Case", "ps": ["i:1"], "tgt": 4}, {"op": "Case", "ps": ["i:2"], "tgt": 6}, J(7),
                   P("a"), J(7), P("b"), P("Return")),
    "D-loop": rs(P("a"), B(1, 4), P("b"), J(0), P("End")),
    "D-fallback": rs({"op": "lives", "ps": ["c:A"], "tgt": -1}, B(1, 3), P("a"), P("Return")),
    "D-W": rs(P("a"), B(1, 0), B(2, 0), P("Return")),
    "D-X": rs({"op": "Switch", "ps": ["c:$S"], "tgt": -1}, {"op": "Case", "ps": ["i:1"], "tgt": 2}, {"op": "Case", "ps": ["i:2"], "tgt": 2}, P("Return")),
    "D-X2": rs({"op": "Switch", "ps": ["c:$S"], "tgt": -1}, {"op": "Case", "ps": ["i:1"], "tgt": 3}, J(4), P("a"), P("b"), P("Hold")),
    # a well-formed input whose structured attempt aborts in the branch pass and leaves {"1,2": None} behind, and inputs whose
    # first lookup in the switch pass asks for exactly that key (found by projecting real runs onto the model's counterexample)
    "D-abort-residue": rs(B(0, 0), B(1, 0), B(2, 0), J(1)),
    "D-switch-first-lookup": rs({"op": "Switch", "ps": ["c:$S"], "tgt": -1}, {"op": "Case", "ps": ["i:1"], "tgt": 2}, P("Return")),
    "D-switch-first-lookup-2": rs({"op": "Switch", "ps": ["c:$S"], "tgt": -1}, {"op": "Case", "ps": ["i:1"], "tgt": 3}, P("Return"), P("End")),
    "D-nested": rs(B(1, 3), P("a"), J(8), {"op": "Switch", "ps": ["c:$S"], "tgt": -1}, {"op": "Case", "ps": ["i:1"], "tgt": 7}, J(8), P("x"), P("b"), P("Return")),
}


def _from_source(src: str):
    """a routine set as a binary reader delivers it, obtained by compiling `src` (used for shapes that are tedious to write as records)"""
    c = drive.compile_text(src)
    assert c["status"] == "ok", c["err"]
    return gen_flow.renumber(c["ops"])


SETS["D-forever"] = rs({"op": "fa", "ps": ["i:1"], "tgt": -1}, {"op": "fbody", "ps": ["c:K"], "tgt": -1}, B(1, 5), {"op": "fmore", "ps": [], "tgt": -1}, J(1), P("fafter"), P("End"))
SETS["D-forever-2"] = _from_source("def 0 { x(); forever { if ($W > 2) { y(); break_loop; } z($W); continue; } w(); hold; }")
TEXTS = {
    "T-simple": "def 0 { a(1); return; }",
    "T-flow": "def 0 { if ($V == 1 || $V == 2) { a(); } elseif not ($W > 3) { b(); } else { c(); } switch ($S) { case 1: d(); break; default: e(); } while ($V == 1) { f(); } return; }",
    "T-macro": "macro m($a) { x($a); if ($a == 1) { return; } y(Position<'p', 1, 2.5>); }\ndef 0 { ~m(1); ~m(CONST); return; }",
    "T-fail-label": "def 0 { a(); jump @nowhere; }",
    "T-fail-break": "def 0 { a(); if ($V == 1) { break; } }",
    "T-fail-parse": "def 0 { a(; }",
    # a compile that raises INSIDE a loop / a case, and texts with stray loop / case control that must stay rejected afterwards
    "T-fail-in-loop": "def 0 { forever { foo(); ~nope(); } }",
    "T-fail-in-case": "def 0 { switch ($S) { case 1: foo(); jump @nowhere2; } }",
    "T-stray-continue": "def 0 { @a; foo(); continue; }",
    "T-stray-break": "def 0 { @a; foo(); break; }",
    # the same numbers in other spellings (a process-wide memo keyed by a normalised spelling would mix them up)
    "T-dec-a": "def 0 { a(1.5, 0.25, -2.50, 10.0); b(0x10, 7); return; }",
    "T-dec-b": "def 0 { a(1.50, 0.250, -2.5, 10.00); b(16, 007.0); return; }",
    "T-ssbscript": "//?: is-ssb-script: true\ndef 0 {\n    a(1);\n    @l;\n    Jump(@l);\n}\n",
    "T-coro": "coro A { a(); return; }\ncoro B { alias previous; }",
    # explicit loop / case control statements at every nesting (per-compile handler stacks)
    "T-loops": "def 0 { forever { a(); if ($V == 1) { continue; } switch ($S) { case 1: b(); break; case 2: while ($W == 2) { c(); if ($V == 3) { break_loop; } "
               "for ($I = 0; $I < 3; $I += 1;) { d(); if ($V == 4) { continue; } e(); } } break; default: f(); break_loop; } g(); } end; }",
}
# texts that live in files (imports): a fixed directory so that results do not depend on the process
IMPORT_DIR = "/tmp/vf-c11-imports"
FILES = {"lib.exps": "macro lib($p) { l($p); if ($p == 1) { return; } m(); }\n",
         "mid.exps": 'import "./lib.exps";\nmacro mid() { ~lib(2); n(); }\n'}
TEXTS["T-imp-lib"] = FILES["lib.exps"]
TEXTS["T-imp-main"] = 'import "./mid.exps";\ndef 0 { ~mid(); ~lib(1); return; }\n'
TEXTS["T-imp-main2"] = 'import "./mid.exps";\nimport "./lib.exps";\ndef 0 { ~lib(3); ~mid(); end; }\ndef 1 for actor A { ~mid(); hold; }\n'
PATHS = {"T-imp-lib": IMPORT_DIR + "/lib.exps", "T-imp-main": IMPORT_DIR + "/main.exps", "T-imp-main2": IMPORT_DIR + "/main2.exps"}


def path_of(name: str) -> str:
    if name in PATHS:
        os.makedirs(IMPORT_DIR, exist_ok=True)
        for fn, text in FILES.items():
            fp = os.path.join(IMPORT_DIR, fn)
            if not os.path.exists(fp):
                with open(fp + f".{os.getpid()}", "w") as fh:
                    fh.write(text)
                os.replace(fp + f".{os.getpid()}", fp)
        return PATHS[name]
    return "/vf-nonexistent/main.exps"


CALLS = [("decompile", k) for k in SETS] + [("compile", k) for k in TEXTS] + [("compile-reuse", k) for k in ("T-simple", "T-flow", "T-macro", "T-fail-break", "T-imp-lib", "T-imp-main")]


def digest(x) -> str:
    return hashlib.sha1(json.dumps(x, sort_keys=True, default=str).encode()).hexdigest()[:20]


def _history_child(conn, history, adversarial):
    import logging
    import warnings
    logging.disable(logging.CRITICAL)
    warnings.simplefilter("ignore")
    events = []
    sink = lambda ev: events.append(ev)
    un = idalloc.install(sink) if adversarial else (lambda: None)
    from explorerscript.ssb_converting.ssb_compiler import ExplorerScriptSsbCompiler
    shared = ExplorerScriptSsbCompiler(common.PPL)
    results = []
    try:
        for kind, name in history:
            marker = len(events)
            if kind == "decompile":
                d = decomp.decompile_case({"routines": SETS[name], "infos": INFO1})
                out = {"status": d["status"], "text": d["text"], "sm": d["sm"], "mutated": d["mutated"]}
                mutated = d["mutated"]
            elif kind == "compile":
                c = drive.compile_text(TEXTS[name], path_of(name))
                out = {k: c[k] for k in ("status", "ops", "infos", "sm", "mro")}
                mutated = False
            else:
                try:
                    shared.compile(TEXTS[name], path_of(name))
                    out = {"status": "ok", "ops": canon.ops_recs(shared.routine_ops, True), "infos": canon.infos_recs(shared.routine_infos, shared.named_coroutines),
                           "sm": shared.source_map.serialize(), "mro": list(shared.macro_resolution_order)}
                except Exception as ex:
                    out = {"status": type(ex).__name__, "ops": [], "infos": [], "sm": None, "mro": []}
                mutated = False
            gc.collect()
            results.append({"digest": digest(out), "status": out["status"], "mutated": mutated, "from_event": marker})
    finally:
        un()
    evs = [{"e": e[0], "g": int(e[1]) if len(e) > 1 else 0, "k": str(e[2]) if len(e) > 2 else ""} for e in events if e[0] != "free"]
    conn.send({"results": results, "events": evs})
    conn.close()


class _PipeConn:
    def __init__(self, fd):
        self.fd = fd

    def send(self, obj):
        import pickle
        data = pickle.dumps(obj)
        os.write(self.fd, len(data).to_bytes(8, "big"))
        off = 0
        while off < len(data):
            off += os.write(self.fd, data[off:off + 65536])

    def close(self):
        os.close(self.fd)


def twice_same_objects(case: dict) -> dict:
    """convert() twice on the SAME operation objects (what a caller does who keeps a loaded script around): the second answer
    must equal the first and the objects must still mean what they meant - `Decompilation does not alter the meaning of the
    routine set it was given`."""
    import copy
    from explorerscript.ssb_converting.ssb_decompiler import ExplorerScriptSsbDecompiler
    from explorerscript.ssb_converting.ssb_data_types import DungeonModeConstants
    ops = canon.build_ops(case["routines"])
    infos, coros = canon.build_infos(case["infos"])
    before = canon.ops_recs(copy.deepcopy(ops), jump_last=False)
    before_infos = [(i.type.name, i.linked_to, i.linked_to_name) for i in infos]
    outs = []
    for _ in range(2):
        try:
            text, sm = ExplorerScriptSsbDecompiler(infos, ops, coros, common.PPL, DungeonModeConstants(*decomp.DMODE)).convert()
            outs.append({"status": "ok", "text": text, "sm": sm.serialize()})
        except Exception as ex:  # noqa
            outs.append({"status": type(ex).__name__, "text": "", "sm": None})
    try:
        mutated = canon.ops_recs(ops, jump_last=False) != before or [(i.type.name, i.linked_to, i.linked_to_name) for i in infos] != before_infos
    except Exception:
        mutated = True
    # the SsbScript decompiler, called directly on its own fresh objects
    from explorerscript.ssb_script.ssb_converting.ssb_decompiler import SsbScriptSsbDecompiler
    ops2 = canon.build_ops(case["routines"])
    infos2, coros2 = canon.build_infos(case["infos"])
    before2 = canon.ops_recs(copy.deepcopy(ops2), jump_last=False)
    souts = []
    for _ in range(2):
        try:
            text, sm = SsbScriptSsbDecompiler(infos2, ops2, coros2).convert()
            souts.append({"status": "ok", "text": text, "sm": sm.serialize()})
        except Exception as ex:  # noqa
            souts.append({"status": type(ex).__name__, "text": "", "sm": None})
    try:
        mutated = mutated or canon.ops_recs(ops2, jump_last=False) != before2
    except Exception:
        mutated = True
    outs[0]["ssbscript"], outs[1]["ssbscript"] = souts[0], souts[1]
    return {"first": digest(outs[0]), "second": digest(outs[1]), "mutated": mutated, "status": outs[0]["status"]}


def _compiled_inputs(rng: random.Random, n: int) -> list[dict]:
    """routine sets as the compiler produces them from random programs (every statement form incl. dungeon_mode, scn, menus)"""
    out = []
    for _ in range(n):
        c = drive.compile_text(gen_exps.random_program(rng, 2))
        if c["status"] == "ok":
            out.append({"routines": [[dict(o) for o in r] for r in c["ops"]], "infos": c["infos"]})
    return out


def unbounded_design(rep, thorough: bool) -> dict:
    """CacheDesign.tla = the design without call / step bounds.  TLC exhaustively (3 ids x 2 keys) in every run; in the thorough
    tier also the TLAPS proof for arbitrary Ids and Keys and Apalache's inductive-invariant check, each with its vacuity guard
    (the pinned tree's deviation must break it)."""
    import shutil
    import subprocess
    out = {}
    r = common.run_tlc("CacheDesign", "CacheDesign.cfg")
    rep.add_tlc(r)
    if r["inv_errors"]:
        rep.violation("cache-design-unbounded", {"tlc": r["out"][-1500:]})
    out["tlc_states_3ids_2keys"] = r["distinct"]
    try:
        r2 = common.run_tlc("CacheDesign", "CacheDesign_pinned.cfg", cont=False)
        dev = r2["inv_errors"] > 0
    except common.MachineryError:
        dev = False
    if not dev:
        raise common.MachineryError("vacuity guard: CacheDesign with ClearBeforeSwitchPass = FALSE no longer violates CacheTransparent")
    if not thorough:
        return out
    sc = os.path.join(common.scratch(), "proof")
    os.makedirs(sc, exist_ok=True)
    for f in ("CacheDesign.tla", "MC_CacheDesign.tla", "MC_CacheDesignPinned.tla", "proofs/CacheDesignProof.tla"):
        shutil.copy(os.path.join(common.SPEC, f), sc)
    if shutil.which("tlapm"):
        p = subprocess.run(["tlapm", "--threads", "8", "CacheDesignProof.tla"], cwd=sc, capture_output=True, text=True, timeout=1800)
        m = [ln for ln in (p.stdout + p.stderr).splitlines() if "obligations" in ln]
        out["tlaps"] = m[-1].strip() if m else "no verdict"
        if p.returncode != 0 or not m or "proved" not in m[-1] or "failed" in m[-1]:
            rep.violation("cache-design-proof", {"tlapm": (p.stdout + p.stderr)[-1500:]})
        # the deviation must make the proof fail (exactly the NextPhase step)
        with open(os.path.join(sc, "CacheDesignProof.tla")) as fh:
            src = fh.read()
        with open(os.path.join(sc, "CacheDesignProofDev.tla"), "w") as fh:
            fh.write(src.replace("ClearBeforeSwitchPass = TRUE", "ClearBeforeSwitchPass = FALSE").replace("MODULE CacheDesignProof", "MODULE CacheDesignProofDev"))
        p2 = subprocess.run(["tlapm", "--threads", "8", "CacheDesignProofDev.tla"], cwd=sc, capture_output=True, text=True, timeout=1800)
        if p2.returncode == 0:
            raise common.MachineryError("vacuity guard: the TLAPS proof goes through for the pinned tree's deviation as well")
        out["tlaps_deviation"] = "proof fails, as it must"
    else:
        out["tlaps"] = "skipped: tlapm not on PATH"
    if shutil.which("apalache-mc"):
        def apa(args):
            return subprocess.run(["apalache-mc", "check", "--out-dir=" + os.path.join(sc, "apa")] + args, cwd=sc, capture_output=True, text=True, timeout=1800)
        a1 = apa(["--init=Init", "--inv=IndInv", "--length=0", "MC_CacheDesign.tla"])
        a2 = apa(["--init=IndInv", "--inv=IndInv", "--length=1", "MC_CacheDesign.tla"])
        ok = all("The outcome is: NoError" in (a.stdout + a.stderr) for a in (a1, a2))
        out["apalache_inductive_3x3"] = "Init => IndInv and IndInv /\\ Next => IndInv': " + ("NoError" if ok else "ERROR")
        if not ok:
            rep.violation("cache-design-inductive", {"apalache": (a1.stdout + a2.stdout)[-1500:]})
        a3 = apa(["--init=Init", "--inv=CacheTransparent", "--length=14", "MC_CacheDesignPinned.tla"])
        if "The outcome is: Error" not in (a3.stdout + a3.stderr):
            raise common.MachineryError("vacuity guard: Apalache finds no violation of CacheTransparent for the pinned tree's deviation")
        out["apalache_deviation"] = "counterexample found, as it must"
    else:
        out["apalache"] = "skipped: apalache-mc not on PATH"
    return out


def run_history(arg) -> dict:
    """a fresh process per history (plain fork: pool workers may not start multiprocessing children)"""
    history, adversarial = arg
    return run_isolated(_history_child, (history, adversarial))


def run_isolated(child, args: tuple, limit: float = 60.0) -> dict:
    """child(conn, *args) in a forked process.  A child that dies without an answer (killed by a signal - e.g. by the kernel under
    memory pressure - or crashed) is run once more; dying twice is reported as `_died_twice` (a reproducible crash is a finding)."""
    out = _run_isolated_once(child, args, limit)
    if out.get("_died"):
        again = _run_isolated_once(child, args, limit)
        if again.get("_died"):
            return {"_died_twice": True, "how": [out.get("how"), again.get("how")]}
        again["_retried_after_death"] = out.get("how")
        return again
    return out


def _run_isolated_once(child, args: tuple, limit: float = 60.0) -> dict:
    import pickle
    import select
    import signal
    import time
    r, w = os.pipe()
    pid = os.fork()
    if pid == 0:
        os.close(r)
        try:
            dn = os.open(os.devnull, os.O_WRONLY)
            os.dup2(dn, 2)        # igraph / ANTLR console noise
        except OSError:
            pass
        try:
            child(_PipeConn(w), *args)
        except BaseException:
            import traceback
            try:
                _PipeConn(w).send({"_error": "child raised: " + traceback.format_exc()[-1500:]})
            except Exception:
                pass
        finally:
            os._exit(0)
    os.close(w)
    buf = b""
    deadline = time.time() + limit
    out = None
    try:
        while True:
            left = deadline - time.time()
            if left <= 0:
                out = {"_timeout": True}
                break
            ready, _, _ = select.select([r], [], [], left)
            if not ready:
                out = {"_timeout": True}
                break
            chunk = os.read(r, 1 << 20)
            if not chunk:
                break
            buf += chunk
            if len(buf) >= 8 and len(buf) >= 8 + int.from_bytes(buf[:8], "big"):
                break
    finally:
        os.close(r)
        how = ""
        try:
            wp, status = os.waitpid(pid, os.WNOHANG)
        except ChildProcessError:
            wp, status = pid, 0
        if wp == 0:
            try:
                os.kill(pid, signal.SIGKILL)
            except ProcessLookupError:
                pass
            os.waitpid(pid, 0)
        else:
            how = f"signal {os.WTERMSIG(status)}" if os.WIFSIGNALED(status) else f"exit status {os.WEXITSTATUS(status)}"
    if out is None:
        if len(buf) >= 8 and len(buf) >= 8 + int.from_bytes(buf[:8], "big"):
            out = pickle.loads(buf[8:8 + int.from_bytes(buf[:8], "big")])
        else:
            out = {"_died": True, "how": how or "pipe closed without an answer"}
    return out


def validate(rep, cases, tag):
    path = os.path.join(common.scratch(), f"c11-{tag}.json")
    with open(path, "w") as fh:
        json.dump(cases, fh)
    res = common.run_tlc("ProcessState", "ProcessState_trace.cfg", {"CASES_FILE": path})
    os.unlink(path)
    rep.add_tlc(res)
    if res["inv_errors"] and not res["viols"]:
        raise common.MachineryError("invariant violation without VIOL line:\n" + res["out"][-3000:])
    return [(int(v[0]) - 1, common.tla_unquote(v[1]), int(v[2])) for v in res["viols"]]


def main() -> int:
    from vf.pool import pmap
    rep = common.Report("C11")
    rng = random.Random(common.seed() * 443 + 11)
    thorough = common.tier() == "thorough"
    # design level
    res = common.run_tlc("ProcessState", "ProcessState_design_deep.cfg" if thorough else "ProcessState_design.cfg")
    rep.add_tlc(res)
    if res["inv_errors"]:
        rep.violation("cache-design", {"tlc": res["out"][-2000:]})
    try:
        res2 = common.run_tlc("ProcessState", "ProcessState_pinned.cfg", cont=False)
        pinned_violated = res2["inv_errors"] > 0
    except common.MachineryError:
        pinned_violated = False
    if not pinned_violated:
        raise common.MachineryError("vacuity guard: the named deviation NoClearBeforeSwitchPass no longer violates CacheTransparent in the model")
    rep.extra["design_states"] = res["distinct"]
    rep.extra["unbounded_design"] = unbounded_design(rep, thorough)
    # histories: all of length 2 (and 3 in thorough / a random sample in quick), last call observed
    hist = [(c,) for c in CALLS] + list(itertools.product(CALLS, repeat=2))
    h3 = list(itertools.product(CALLS, repeat=3))
    hist += h3 if thorough else rng.sample(h3, 300)
    fresh = {}
    for c, r in zip(CALLS, pmap(run_history, [([c], True) for c in CALLS], limit=90.0, chunk=1)):
        if r.get("_error") or r.get("_timeout") or r.get("_died_twice"):
            raise common.MachineryError(f"fresh run of {c} failed: {r}")
        fresh[c] = r["results"][0]["digest"]
    plain = {}
    for c, r in zip(CALLS, pmap(run_history, [([c], False) for c in CALLS], limit=90.0, chunk=1)):
        plain[c] = r["results"][0]["digest"] if r.get("results") else None
    if any(plain[c] != fresh[c] for c in CALLS):
        raise common.MachineryError("the deterministic id allocator changes the result of a solo call: " + str([c for c in CALLS if plain[c] != fresh[c]]))
    runs = pmap(run_history, [(list(h), True) for h in hist], limit=120.0, chunk=1)
    cases, meta = [], []
    for h, r in zip(hist, runs):
        if r.get("_died_twice"):
            rep.violation("history:process-died", {"history": [list(x) for x in h], "how": r.get("how")})
            continue
        if r.get("_error"):
            raise common.MachineryError("history run failed: " + str(r)[:300])
        if r.get("_timeout"):
            continue
        last = r["results"][-1]
        cases.append({"events": r["events"], "pairs": [{"live": last["digest"], "fresh": fresh[h[-1]]}], "mutated": bool(last["mutated"])})
        meta.append(h)
    for i, kind, l in validate(rep, cases, "main"):
        rep.violation("history:" + kind, {"history": [list(x) for x in meta[i]], "event_index": l,
                                          "event": cases[i]["events"][l - 1] if 0 < l <= len(cases[i]["events"]) else None,
                                          "inputs": {n: (SETS.get(n) and decomp and [f"{o['off']}:{o['op']}->{o['tgt']}" for o in SETS[n][0]]) or TEXTS.get(n) for _, n in meta[i]}})
    # argument preservation: every special-syntax opcode family (the write handlers that translate parameters), C02's corpus sample
    from vf.pool import pmap as pool_map
    pres_in = gen_flow.special_families() + [c for c in (gen_flow.random_flow(rng, 7) for _ in range(150 if not thorough else 1500)) if c]
    for c in _compiled_inputs(rng, 60 if not thorough else 600):
        rs_ = gen_flow.renumber(c["routines"])
        gen_flow.sanitise_dmode(rs_)
        pres_in.append({"routines": rs_, "infos": c["infos"]})
    pres = pool_map(twice_same_objects, pres_in, limit=30.0)
    pcases, pmeta = [], []
    for c, r in zip(pres_in, pres):
        if r.get("_error"):
            raise common.MachineryError("argument-preservation driver failed: " + r["_error"])
        if r.get("_timeout"):
            continue
        pcases.append({"events": [], "pairs": [{"live": r["second"], "fresh": r["first"]}], "mutated": bool(r["mutated"])})
        pmeta.append(c)
    for i, kind, l in validate(rep, pcases, "preserve"):
        rep.violation("same-objects-twice:" + kind, {"input": [[f"{o['off']}:{o['op']}({','.join(o['ps'])})->{o['tgt']}" for o in r] for r in pmeta[i]["routines"]]})
    rep.extra["argument_preservation_cases"] = len(pcases)
    # self-tests
    good = [c for c in cases if any(e["e"] == "cache-hit" for e in c["events"])][:2] or cases[:2]
    muts = []
    for c in good:
        m = json.loads(json.dumps(c)); m["pairs"][0]["live"] = "x" * 20; muts.append(m)
        m = json.loads(json.dumps(c)); m["mutated"] = True; muts.append(m)
    stale = {"events": [{"e": "alloc", "g": 1, "k": ""}, {"e": "cache-clear", "g": 1, "k": ""}, {"e": "cache-miss", "g": 1, "k": "2,3"}, {"e": "cache-store", "g": 1, "k": "2,3"},
                        {"e": "alloc", "g": 1, "k": ""}, {"e": "cache-hit", "g": 1, "k": "2,3"}], "pairs": [{"live": "a", "fresh": "a"}], "mutated": False}
    muts.append(stale)
    tmp = common.Report("C11"); tmp.known = []
    got = validate(tmp, muts, "selftest")
    if len(got) != len(muts) or got[-1][1] != "stale-hit" and not any(g[1] == "stale-hit" for g in got):
        raise common.MachineryError(f"C11 self-test: corrupted histories accepted or stale hit not recognised: {got}")
    rep.extra["selftest_corrupted_rejected"] = len(muts)
    rep.traces = len(cases) + len(pcases)
    rep.evaluations = len(hist) + len(pres_in)
    rep.nontrivial = len({tuple(h) for h in meta if len(h) >= 2})
    rep.extra["events_validated"] = sum(len(c["events"]) for c in cases)
    rep.rule = (f"all histories of length <=2 over {len(CALLS)} calls (decompile of structured / fallback / aborting routine sets, compile of valid, failing, macro, "
                "SsbScript and coroutine texts, reuse of one compiler instance) + length-3 histories (all in thorough, 300 sampled in quick); each history runs in a fresh "
                "process with the deterministic lowest-free id allocator; the cache events recorded by the guarded hooks are validated by TLC against ProcessState.tla and "
                "the observed call's digest (ops/text/source map/exception type) is compared with its fresh-process digest; non-trivial = history of length >=2")
    rep.sample({"history": [list(x) for x in meta[len(meta) // 2]], "events": cases[len(meta) // 2]["events"][:8]})
    rep.assumptions = ["id reuse is modelled by the lowest-free allocator (a legal CPython behaviour); other reuse orders are covered by the design model only"]
    return rep.finish()


if __name__ == "__main__":
    common.main_wrapper(main)
