"""C02  Decompiled source denotes the input routines; recompiling preserves behaviour.
Specs: CompileEquiv.tla (text read by the language specification x input), ByteEquiv.tla (input x recompiled)."""
from __future__ import annotations

import json
import os
import random

from vf import common, drive, decomp, gen_flow, gen_exps, enum_exps, shapes
from vf.pool import pmap


def compile_for_flow(src: str) -> dict:
    c = drive.compile_text(src)
    c["src"] = src
    return c


def ihash(routines) -> str:
    import hashlib
    return hashlib.sha1(json.dumps(fmt(routines)).encode()).hexdigest()[:16]


def flow_inputs(rng: random.Random, thorough: bool, want_unstructurable: bool = False) -> tuple[list[dict], dict]:
    """the shared input family of C02 / C06 / C09.

    Two layers.  The CORPUS layer is generated from fixed seeds (the same inputs on every run): it contains the
    arbitrary flow graphs and deeply nested compiler-shaped programs on which the heuristic decompiler of the pinned
    tree is known to fail in many different ways; its failures are listed in known_findings.json by input shape or,
    where no compact shape describes them, by the hash of the specific input.  The SEEDED layer depends on
    VERIF_SEED and is restricted to compiler-shaped programs of nesting depth <= 1, where no failure has been observed."""
    seeded_rng = rng
    rng = random.Random(20260925 + (1 if thorough else 0))
    stats = {}
    ex3 = gen_flow.exhaustive_flows(3)
    ex4 = gen_flow.exhaustive_flows(4)[len(ex3):]
    if not thorough:
        ex4 = rng.sample(ex4, 1500)
    cases = [dict(c, origin="exhaustive") for c in ex3 + ex4]
    stats["exhaustive_le3"] = len(ex3)
    stats["exhaustive_4" + ("" if thorough else "_sampled")] = len(ex4)
    # recorded witness of the listed finding C02-entry-jump-is-a-jump-target (part of every run)
    wit = [{"off": 0, "op": "Jump", "ps": [], "tgt": 2}, {"off": 1, "op": "Branch", "ps": ["c:$V", "i:1"], "tgt": 0}, {"off": 2, "op": "a2", "ps": ["i:2"], "tgt": -1},
           {"off": 3, "op": "Jump", "ps": [], "tgt": 1}]
    cases.append({"routines": [[dict(o, pseudo=False) for o in wit]], "infos": [{"kind": "GENERIC", "target": "i:0", "coro": ""}], "origin": "finding-witness"})
    sp = [dict(c, origin="special") for c in gen_flow.special_families()]
    cases += sp
    stats["special_syntax"] = len(sp)
    n = 0
    for _ in range(12000 if thorough else 1500):
        f = gen_flow.random_flow(rng, rng.choice([4, 6, 8, 10]))
        if f:
            cases.append(dict(f, origin="random"))
            n += 1
    stats["random_flows"] = n
    # compiler-shaped: compile results of programs whose routines all end in a terminator, renumbered as a binary has them
    srcs = enum_exps.c01_family(False)
    srcs = srcs[::7] if not thorough else srcs[::2]
    srcs += enum_exps.loop_nests()[:: (1 if thorough else 2)]
    srcs += enum_exps.alias_layouts()
    for _ in range(4000 if thorough else 500):
        srcs.append(gen_exps.random_program(rng, max_depth=rng.choice([1, 2, 3])))
    n_corpus_srcs = len(srcs)
    for _ in range(6000 if thorough else 900):
        srcs.append(gen_exps.random_program(seeded_rng, max_depth=1, max_stmts=seeded_rng.choice([2, 3, 4])))
    comp = pmap(compile_for_flow, srcs)
    shaped = []
    n_seeded = 0
    for k, c in enumerate(comp):
        if c.get("status") != "ok":
            continue
        rs = gen_flow.renumber(c["ops"])
        gen_flow.sanitise_dmode(rs)
        if any(len(r) > 0 for r in rs) and gen_flow.well_formed(rs):      # empty routines = alias routines
            shaped.append({"routines": rs, "infos": c["infos"], "origin": "compiled" if k < n_corpus_srcs else "compiled-seeded", "src": c["src"]})
            n_seeded += k >= n_corpus_srcs
    cases += shaped
    stats["compiler_shaped_corpus"] = len(shaped) - n_seeded
    stats["compiler_shaped_seeded_depth1"] = n_seeded
    rel = []
    for c in [x for x in shaped if x["origin"] == "compiled"][:: (2 if thorough else 4)] + [x for x in cases if x["origin"] == "random"][::3]:
        try:
            rr = gen_flow.relayout(c["routines"], rng)
        except Exception:
            continue
        if gen_flow.well_formed(rr) and rr != c["routines"]:
            rel.append({"routines": rr, "infos": c["infos"], "origin": "relayout", "of": c["routines"]})
    cases += rel
    stats["relayout"] = len(rel)
    return cases, stats


def byte_check(rep, pairs: list[dict], tag: str, prop: str):
    """pairs: [{a, b, infoA, infoB, status}] -> list of (index, kind, detail)"""
    out = []
    B = 4000
    for k in range(0, len(pairs), B):
        path = os.path.join(common.scratch(), f"{prop}-byte-{tag}-{k}.json")
        with open(path, "w") as fh:
            json.dump(pairs[k:k + B], fh)
        res = common.run_tlc("ByteEquiv", "ByteEquiv.cfg", {"CASES_FILE": path})
        os.unlink(path)
        rep.add_tlc(res)
        if res["inv_errors"] and not res["viols"]:
            raise common.MachineryError("invariant violation without VIOL line:\n" + res["out"][-3000:])
        for v in res["viols"]:
            out.append((k + int(v[0]) - 1, common.tla_unquote(v[1]),
                        {"routine": int(v[2]), "a_pos": [int(v[3]), int(v[4])], "b_pos": [int(v[5]), int(v[6])],
                         "a_op": common.tla_unquote(v[7]), "b_op": common.tla_unquote(v[8])}))
    return out


def fmt(rs):
    return [[f"{o['off']}:{o['op']}({','.join(o['ps'])})->{o['tgt']}" for o in r] for r in rs]


def run_decompile(cases):
    recs = pmap(decomp.decompile_case, cases, limit=10.0)
    for i, r in enumerate(recs):
        if r.get("_error"):
            raise common.MachineryError("harness error in decompile driver: " + r["_error"])
        if r.get("_timeout"):
            recs[i] = {"inp": cases[i]["routines"], "infoIn": cases[i]["infos"], "status": "Hang", "err": "convert() did not return within 10 s",
                       "text": "", "fallback": False, "sm": None, "recomp": None, "table": None, "mutated": False}
        recs[i]["origin"] = cases[i].get("origin", "")
    return recs


def check_structured(rep, recs, prop="C02"):
    """the two products for every structured (non-fallback) decompilation"""
    from vf.c01 import product_check
    text_cases, byte_pairs, idx = [], [], []
    for i, r in enumerate(recs):
        if r["status"] != "ok" or r["fallback"]:
            continue
        a = decomp.dmode_normalise(r["inp"])
        if r["recomp"]["status"] != "ok":
            rep.violation("decompiled-text-rejected", {"input": fmt(r["inp"]), "text": r["text"], "err": r["recomp"]["status"] + ": " + r["recomp"]["err"],
                                                       "tags": shapes.tags(r["inp"]), "origin": r["origin"], "hash": ihash(r["inp"])})
            continue
        if r["table"] is None:
            raise common.MachineryError("cannot map decompiled text to node table: " + r.get("table_err", "") + "\n" + r["text"])
        t = r["table"]
        text_cases.append({"src": r["text"], "nodes": t["nodes"], "par": t["par"], "routines": t["routines"], "macros": t["macros"],
                           "ops": a, "infos": r["infoIn"], "strictSrc": True, "_i": i})
        byte_pairs.append({"a": a, "b": decomp.dmode_normalise(r["recomp"]["ops"]), "infoA": r["infoIn"], "infoB": r["recomp"]["infos"], "status": "ok"})
        idx.append(i)
    product_check(rep, text_cases, "text", prop=prop, kind_prefix="text-vs-input",
                  extra=lambda c: {"tags": shapes.tags(recs[c["_i"]]["inp"]), "origin": recs[c["_i"]]["origin"], "input": fmt(recs[c["_i"]]["inp"]),
                                   "hash": ihash(recs[c["_i"]]["inp"])})
    for j, kind, det in byte_check(rep, byte_pairs, "recomp", prop):
        r = recs[idx[j]]
        if kind == "illformed":
            raise common.MachineryError("generator produced an input outside WellFormed: " + json.dumps(fmt(r["inp"])))
        rep.violation("recompiled-vs-input:" + kind, {"input": fmt(r["inp"]), "text": r["text"], "recompiled": fmt(r["recomp"]["ops"]), "detail": det,
                                                        "origin": r["origin"], "tags": shapes.tags(r["inp"]), "hash": ihash(r["inp"])})
    return len(text_cases)


def main() -> int:
    rep = common.Report("C02")
    rng = random.Random(common.seed() * 733 + 2)
    thorough = common.tier() == "thorough"
    cases, stats = flow_inputs(rng, thorough)
    # the relayout layer is justified on the model: relaid-out set ~ original on the SSB machine
    rel = [c for c in cases if c["origin"] == "relayout"]
    pairs = [{"a": c["of"], "b": c["routines"], "infoA": c["infos"], "infoB": c["infos"], "status": "ok"} for c in rel]
    bad = byte_check(rep, pairs, "relayout", "C02")
    if bad:
        raise common.MachineryError("relayout is not behaviour preserving on the model: " + json.dumps(bad[0][1:]) + json.dumps(fmt(rel[bad[0][0]]["of"])) + json.dumps(fmt(rel[bad[0][0]]["routines"])))
    # first step of the decompiler against its specification (CompilerPipeline.tla, Mode = "resolver"): offsets -> labels must refine
    # the input.  As in C01 the verdict about C02 stays with the two products below; a resolver step that does not refine is named
    # in the evidence (and would show in nearly every product as well).
    from vf import pipeline
    sample = [c for c in cases if c["origin"] in ("special", "exhaustive")][:: (1 if thorough else 5)] + \
             [c for c in cases if c["origin"] not in ("special", "exhaustive", "relayout")][:: (1 if thorough else 3)]
    staged = [r for r in pmap(pipeline.staged_resolve, sample, limit=10.0) if r.get("complete")]
    rbad, rtot = pipeline.tlc_check_resolver(staged, "main")
    rep.states += rtot["distinct"]
    rep.transitions += rtot["states"]
    rmuts = []
    for r in staged:
        labels = sorted({o["lbl"] for rt in r["D1"] for o in rt if o["k"] == "label"})
        tests = [(i, j) for i, rt in enumerate(r["D1"]) for j, o in enumerate(rt) if o["k"] == "ljump" and o["op"] != "Jump"]
        if len(labels) >= 2 and tests:
            m = json.loads(json.dumps({"D0": r["D0"], "D1": r["D1"]}))
            i, j = tests[0]
            m["D1"][i][j]["lbl"] = next(x for x in labels if x != m["D1"][i][j]["lbl"])
            rmuts.append(m)
        if len(rmuts) >= 6:
            break
    if rmuts:
        g2, _ = pipeline.tlc_check_resolver(rmuts, "selftest")
        # retargeting is only observable when the two labels lead to different behaviour; at least one of the corruptions must be seen
        if not g2:
            raise common.MachineryError("resolver self-test: no retargeted label jump was rejected")
    rep.extra["resolver_stage"] = {"inputs_staged": len(staged), "not_refining": len(rbad),
                                   "examples": [{"input": fmt(staged[i]["routines"]), "verdicts": v} for i, v in list(rbad.items())[:3]],
                                   "selftest_corruptions": len(rmuts)}
    recs = run_decompile(cases)
    n_struct = check_structured(rep, recs)
    outcomes = {}
    for r in recs:
        k = "fallback" if r["fallback"] else ("structured" if r["status"] == "ok" else "raised/hang (C06)")
        outcomes[k] = outcomes.get(k, 0) + 1
    # self-test: swap the recompiled ops of two different structured cases -> must be rejected
    good = [r for r in recs if r["status"] == "ok" and not r["fallback"] and r["recomp"] and r["recomp"]["status"] == "ok"
            and sum(len(x) for x in r["inp"]) >= 3]
    muts = []
    for r in good[:200]:
        b = json.loads(json.dumps(decomp.dmode_normalise(r["recomp"]["ops"])))
        flat = [o for rt in b for o in rt]
        if flat and flat[0]["op"] != "Jump":
            flat[0]["ps"] = flat[0]["ps"] + ["i:424242"]
            muts.append({"a": decomp.dmode_normalise(r["inp"]), "b": b, "infoA": r["infoIn"], "infoB": r["recomp"]["infos"], "status": "ok"})
        if len(muts) >= 8:
            break
    tmp = common.Report("C02"); tmp.known = []
    got = byte_check(tmp, muts, "selftest", "C02")
    if not muts or len({g[0] for g in got}) != len(muts):
        raise common.MachineryError("C02 self-test: corrupted recompilations accepted")
    rep.extra["selftest_corrupted_rejected"] = len(muts)
    rep.traces = n_struct * 2
    rep.evaluations = len(cases)
    rep.nontrivial = len({json.dumps(r["inp"]) for r in recs if r["status"] == "ok" and not r["fallback"]
                          and any(o["tgt"] != -1 and o["op"] != "Jump" for rt in r["inp"] for o in rt)})
    rep.rule = ("well-formed routine sets: " + json.dumps(stats) + "; each structured decompilation is checked twice by TLC: the text read by "
                "ExpsSemantics x the input, and the recompiled ops x the input; non-trivial = distinct structured input with >=1 conditional jump")
    rep.extra["outcomes"] = outcomes
    rep.extra["families"] = stats
    ex = next((r for r in good if r["origin"] == "compiled"), good[0] if good else None)
    if ex:
        rep.sample({"input": fmt(ex["inp"]), "text": ex["text"]})
    rep.assumptions = ["inputs on which convert() raises, hangs or falls back to SsbScript are decided by C06, not here",
                       "dungeon-mode numbers 0..3 and their configured constants are identified (C04's stated tolerance)"]
    return rep.finish()


if __name__ == "__main__":
    common.main_wrapper(main)
