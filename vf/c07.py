"""C07  SsbScript is a lossless spelling of SSB ops.  Spec: spec/SsbScriptRT.tla."""
from __future__ import annotations

import json
import os
import random

from vf import common, canon, gen_ssb
from vf.pool import pmap


def roundtrip(case: dict) -> dict:
    """Real code: SsbScriptSsbDecompiler.convert() -> SsbScriptSsbCompiler.compile()."""
    from explorerscript.ssb_script.ssb_converting.ssb_decompiler import SsbScriptSsbDecompiler
    from explorerscript.ssb_script.ssb_converting.ssb_compiler import SsbScriptSsbCompiler
    rec = {"inp": case["routines"], "infoIn": case["infos"], "out": [], "infoOut": [], "status": "ok", "err": "",
           "text": ""}
    try:
        ops = canon.build_ops(case["routines"])
        infos, coros = canon.build_infos(case["infos"])
        text, _sm = SsbScriptSsbDecompiler(infos, ops, coros).convert()
        rec["text"] = text
        c = SsbScriptSsbCompiler()
        c.compile(text)
        rec["out"] = canon.ops_recs(c.routine_ops, jump_last=True)
        rec["infoOut"] = canon.infos_recs(c.routine_infos, c.named_coroutines)
    except Exception as ex:  # any exception = not lossless
        rec["status"] = "raised"
        rec["err"] = f"{type(ex).__name__}: {ex}"[:300]
    return rec


def tlc_check(rep: common.Report, recs: list[dict], tag: str) -> list[int]:
    """Validates the recorded round trips against SsbScriptRT; returns indices of violating cases."""
    path = os.path.join(common.scratch(), f"c07-{tag}.json")
    slim = [{k: r[k] for k in ("inp", "out", "infoIn", "infoOut", "status")} for r in recs]
    with open(path, "w") as fh:
        json.dump(slim, fh)
    res = common.run_tlc("SsbScriptRT", "SsbScriptRT.cfg", {"CASES_FILE": path})
    rep.add_tlc(res)
    bad = []
    for v in res["viols"]:
        cid = int(v[0]) - 1
        kind = common.tla_unquote(v[1])
        r = recs[cid]
        rep.violation(f"ssbscript-roundtrip:{kind}",
                      {"at": [int(v[2]), int(v[3])], "input": {"routines": r["inp"], "infos": r["infoIn"]},
                       "text": r["text"], "err": r["err"], "out": r["out"]})
        bad.append(cid)
    if res["inv_errors"] and not res["viols"]:
        raise common.MachineryError("TLC reported an invariant violation without a VIOL line:\n" + res["out"][-2000:])
    return bad


def self_test(rep: common.Report, good: list[dict]) -> None:
    """Binding self-test (DESIGN 6): corrupt one recorded field; TLC must reject each corrupted record."""
    muts = []
    for r in good:
        if len(muts) >= 6:
            break
        flat = [(ri, oi) for ri, rt in enumerate(r["out"]) for oi, _ in enumerate(rt)]
        jumps = [(ri, oi) for ri, oi in flat if r["out"][ri][oi]["tgt"] != -1]
        if len(flat) < 2 or not jumps:
            continue
        offs = sorted({r["out"][a][b]["off"] for a, b in flat})
        m = json.loads(json.dumps(r))
        ri, oi = jumps[0]
        cur = m["out"][ri][oi]["tgt"]
        m["out"][ri][oi]["tgt"] = [o for o in offs if o != cur][0]
        muts.append(m)
        m2 = json.loads(json.dumps(r))
        m2["out"][flat[0][0]][flat[0][1]]["ps"] = m2["out"][flat[0][0]][flat[0][1]]["ps"] + ["i:99"]
        muts.append(m2)
    if not muts:
        raise common.MachineryError("C07 self-test: no case with a jump available")
    tmp = common.Report("C07")
    bad = tlc_check(tmp, muts, "selftest")
    if len(set(bad)) != len(muts):
        raise common.MachineryError(f"C07 self-test: TLC accepted {len(muts) - len(set(bad))} corrupted round trips")
    rep.extra["selftest_corrupted_rejected"] = len(muts)


def main() -> int:
    rep = common.Report("C07")
    rng = random.Random(common.seed() * 7919 + 7)
    thorough = common.tier() == "thorough"
    cases = gen_ssb.exhaustive_small_sets(3 if not thorough else 4)
    n_exh = len(cases)
    n_rand = 20000 if thorough else 2500
    for _ in range(n_rand):
        cases.append(gen_ssb.arbitrary_set(rng, 4 if not thorough else 5, 6 if not thorough else 9))
    recs = pmap(roundtrip, cases, limit=20.0)
    for i, r in enumerate(recs):
        if r.get("_timeout") or r.get("_error"):
            recs[i] = {"inp": cases[i]["routines"], "infoIn": cases[i]["infos"], "out": [], "infoOut": [],
                       "status": "raised", "err": "timeout" if r.get("_timeout") else r["_error"], "text": ""}
    bad = []
    B = 4000
    for k in range(0, len(recs), B):
        bad += [k + b for b in tlc_check(rep, recs[k:k + B], f"b{k}")]
    good = [r for i, r in enumerate(recs) if i not in set(bad)]
    self_test(rep, good[n_exh:n_exh + 400] if len(good) > n_exh else good)
    rep.traces = len(recs)
    rep.evaluations = len(recs)
    rep.nontrivial = len({json.dumps(r["inp"], sort_keys=True) for r in recs
                          if any(o["tgt"] != -1 for rt in r["inp"] for o in rt)})
    rep.rule = ("routine sets: all sets over {plain,Jump,Branch,Return} with <=%d ops in 2 routines x all jump targets "
                "(exhaustive: %d) + %d random sets (<=5 routines, every routine kind, alias routines, all parameter types, "
                "arbitrary opcode names, cross-routine jumps, offset gaps); non-trivial = distinct input with >=1 jump op"
                % (3 if not thorough else 4, n_exh, n_rand))
    rep.exhaustive = False
    rep.extra["exhaustive_layer"] = {"cases": n_exh, "bound": "<=%d ops, alphabet {a,Jump,Branch,Return}, 2 routines" % (3 if not thorough else 4)}
    for r in recs[n_exh:n_exh + 2]:
        rep.sample({"input": r["inp"], "infos": r["infoIn"], "ssbscript": r["text"]})
    rep.assumptions = ["jump-carrying ops carry exactly their table arity (the target is their last parameter)",
                       "parameter values are from C04's plain subset; string corner cases belong to C04"]
    return rep.finish()


if __name__ == "__main__":
    common.main_wrapper(main)
