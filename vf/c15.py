"""C15  The compile CLI prints what the decompile CLI (and the docs) expect.  Spec: spec/CliContract.tla (+ ByteEquiv)."""
from __future__ import annotations

import json
import os
import random
import shutil
import subprocess
import sys
import tempfile

from vf import common, drive, gen_exps, gen_flow, enum_exps, decomp, canon
from vf.c02 import byte_check, fmt
from vf.pool import pmap

SETTINGS = {"performance_progress_list_var_name": common.PPL,
            "dungeon_mode_constants": {"open": "DMODE_OPEN", "closed": "DMODE_CLOSE", "request": "DMODE_REQUEST", "open_request": "DMODE_OPEN_AND_REQUEST"}}


def cli(mod: str, args: list[str], cwd: str) -> tuple[int, str, str]:
    env = dict(os.environ, PYTHONPATH=common.REPO)
    try:
        p = subprocess.run([sys.executable, "-m", mod] + args, cwd=cwd, env=env, capture_output=True, text=True, timeout=25)
    except subprocess.TimeoutExpired:
        return -999, "", "no answer within 25 s (inconclusive)"
    return p.returncode, p.stdout, p.stderr


def doc_view(doc) -> list:
    out = []
    for r in doc.get("routines", []):
        ops = []
        for o in r.get("ops", []):
            ps = o.get("params", [])
            last = ps[-1] if ps else None
            ops.append({"opcode": o.get("opcode", ""), "jump": last if isinstance(last, int) and not isinstance(last, bool) else -1, "nparams": len(ps)})
        out.append({"type": r.get("type", ""), "hasName": "name" in r, "hasTarget": "target_id" in r, "ops": ops})
    return out


def doc_to_recs(doc) -> tuple[list, list]:
    """a CLI JSON document -> routine-set records (jump parameter = 1-based position) for the behavioural comparison"""
    rs, infos = [], []
    pos = 0
    for r in doc["routines"]:
        rr = []
        for o in r["ops"]:
            pos += 1
            ps = []
            for p in o["params"]:
                if isinstance(p, int):
                    ps.append(f"i:{p}")
                elif p["type"] == "CONSTANT":
                    ps.append("c:" + p["value"])
                elif p["type"] == "FIXED_POINT":
                    from explorerscript.ssb_converting.ssb_data_types import SsbOpParamFixedPoint
                    ps.append("f:" + SsbOpParamFixedPoint.from_str(str(p["value"])).value)
                elif p["type"] == "CONST_STRING":
                    ps.append("s:" + canon.hx(p["value"]))
                elif p["type"] == "LANG_STRING":
                    ps.append("l:" + ";".join(f"{k}={canon.hx(v)}" for k, v in sorted(p["value"].items())))
                else:
                    v = p["value"]
                    def co(c):
                        c = str(c)
                        return (int(c.split(".")[0]), 2) if "." in c else (int(c), 0)
                    (xr, xo), (yr, yo) = co(v["x"]), co(v["y"])
                    ps.append(f"p:{canon.hx(v['name'])},{xo},{yo},{xr},{yr}")
            tgt = -1
            if o["opcode"] in canon.JUMP_IDX and ps and ps[-1].startswith("i:"):
                tgt = int(ps.pop()[2:])
            rr.append({"off": pos, "op": o["opcode"], "ps": ps, "tgt": tgt, "pseudo": False})
        rs.append(rr)
        t = r["type"]
        tg = r.get("target_id")
        infos.append({"kind": t, "target": "i:0" if t in ("GENERIC", "COROUTINE") else (f"i:{tg}" if isinstance(tg, int) else f"c:{tg}"), "coro": r.get("name", "") if t == "COROUTINE" else ""})
    return rs, infos


def run_compile_case(case: dict) -> dict:
    d = tempfile.mkdtemp(prefix="vf-cli-", dir=os.environ.get("VERIF_SCRATCH_BASE") or tempfile.gettempdir())
    try:
        src = case["src"]
        if not case.get("no_source_file"):
            with open(os.path.join(d, "in.exps"), "w", encoding="utf-8") as fh:
                fh.write(src)
        with open(os.path.join(d, "settings.json"), "w") as fh:
            if "settings_text" in case:
                fh.write(case["settings_text"])
            else:
                json.dump(case.get("settings_doc", {"settings": SETTINGS}), fh)
        extra_args = ["--source-map", "sm.json"] if case.get("with_source_map") else []
        rc, out, err = cli("explorerscript.cli.compile", ["in.exps", "--settings", "settings.json"] + extra_args, d)
        api = drive.compile_text(src, os.path.join(d, "in.exps"))
        rec = {"kind": "compile", "src": src, "compileExit": rc, "apiStatus": api["status"], "inputOk": case.get("input_ok", True), "why": case.get("why", ""),
               "docParsed": False, "hasSettings": False, "doc": [],
               "api": api["ops"], "apiKinds": [i["kind"] for i in api["infos"]], "decompileExit": -1, "stderr": err[-300:], "text": "", "behaviour": None}
        doc = None
        try:
            doc = json.loads(out)          # stdout must be exactly the document (also with --source-map)
            rec["docParsed"] = isinstance(doc, dict)
        except Exception:
            pass
        if case.get("with_source_map") and rc == 0 and api["status"] == "ok":
            try:
                with open(os.path.join(d, "sm.json")) as fh:
                    smf = json.load(fh)
                if json.dumps(smf, sort_keys=True) != json.dumps(json.loads(api["sm"]), sort_keys=True):
                    rec["docParsed"] = False
                    rec["stderr"] = "source map file differs from the API's source map"
            except Exception as ex:
                rec["docParsed"] = False
                rec["stderr"] = "source map file missing or unreadable: " + str(ex)[:100]
        if rec["docParsed"] and api["status"] == "ok" and rec["inputOk"]:
            rec["hasSettings"] = "settings" in doc and "routines" in doc
            rec["doc"] = doc_view(doc)
            with open(os.path.join(d, "ssb.json"), "w") as fh:
                fh.write(out)
            rc2, out2, err2 = cli("explorerscript.cli.decompile", ["ssb.json"], d)
            rec["decompileExit"] = 0 if rc2 == -999 else rc2     # a run that does not answer in time is inconclusive, not a rejection
            rec["inconclusive"] = rc2 == -999
            rec["stderr2"] = err2[-300:]
            rec["text"] = out2
            if rc2 == 0:
                a = gen_flow.renumber(api["ops"])
                raw = json.dumps(a)
                gen_flow.sanitise_dmode(a)
                from vf import shapes
                in_domain = raw == json.dumps(a) and not (set(shapes.tags(a)) & {"call", "entryjumptarget", "xroutine", "selftarget", "spin", "twoback", "orphancase", "valeq", "casescn"})
                # behaviour is compared where the decompiler itself is in C02's domain without listed findings
                if in_domain and all(len(r) > 0 for r in a) and gen_flow.well_formed(a) and not out2.lstrip().startswith(decomp.MARKER):
                    c2 = drive.compile_text(out2)
                    rec["behaviour"] = {"a": decomp.dmode_normalise(a), "b": decomp.dmode_normalise(c2["ops"]) if c2["status"] == "ok" else [],
                                        "infoA": api["infos"], "infoB": c2["infos"] if c2["status"] == "ok" else [], "status": "ok" if c2["status"] == "ok" else "rejected"}
        return rec
    finally:
        shutil.rmtree(d, ignore_errors=True)


def run_decompile_case(case: dict) -> dict:
    d = tempfile.mkdtemp(prefix="vf-cli-", dir=os.environ.get("VERIF_SCRATCH_BASE") or tempfile.gettempdir())
    try:
        doc = case.get("doc", {"settings": SETTINGS, "routines": case.get("routines", [])})
        if not case.get("no_file"):
            with open(os.path.join(d, "ssb.json"), "w") as fh:
                if "text" in case:
                    fh.write(case["text"])
                else:
                    json.dump(doc, fh)
        rc, out, err = cli("explorerscript.cli.decompile", ["ssb.json"], d)
        rec = {"kind": "decompile", "src": case.get("text") or json.dumps(doc)[:600], "compileExit": -1, "apiStatus": "n/a", "inputOk": case.get("input_ok", True), "why": case.get("why", ""),
               "docParsed": True, "hasSettings": True, "doc": [],
               "api": [], "apiKinds": [], "decompileExit": rc, "stderr2": err[-400:], "text": out, "behaviour": None}
        if rc == 0 and rec["inputOk"] and not out.lstrip().startswith(decomp.MARKER):
            a, infos = doc_to_recs(doc)
            c2 = drive.compile_text(out)
            rec["behaviour"] = {"a": a, "b": c2["ops"] if c2["status"] == "ok" else [], "infoA": infos, "infoB": c2["infos"] if c2["status"] == "ok" else [],
                                "status": "ok" if c2["status"] == "ok" else "rejected"}
        return rec
    finally:
        shutil.rmtree(d, ignore_errors=True)


def run_lookup_case(case: dict) -> dict:
    """compile command with --lookup: the source lies in a sub-directory, the command runs in another directory, the lookup paths are
    relative to the working directory or absolute (docs/cli_api_usage.rst); the result must be the document of the API's compile"""
    d = tempfile.mkdtemp(prefix="vf-cli-", dir=os.environ.get("VERIF_SCRATCH_BASE") or tempfile.gettempdir())
    try:
        for rel, text in case["files"].items():
            fp = os.path.join(d, rel)
            os.makedirs(os.path.dirname(fp), exist_ok=True)
            with open(fp, "w", encoding="utf-8") as fh:
                fh.write(text)
        with open(os.path.join(d, "settings.json"), "w") as fh:
            json.dump({"settings": SETTINGS}, fh)
        look = [os.path.join(d, p) if case["absolute"] else p for p in case["lookup"]]
        rc, out, err = cli("explorerscript.cli.compile", [case["main"], "--settings", "settings.json", "--lookup"] + look, d)
        src = case["files"][case["main"]]
        api = drive.compile_text(src, os.path.join(d, case["main"]), [os.path.join(d, p) for p in case["lookup"]])
        rec = {"kind": "compile", "src": "// lookup " + " ".join(case["lookup"]) + ("  (absolute)" if case["absolute"] else "  (relative to cwd)") + "\n" + src,
               "compileExit": rc, "apiStatus": api["status"], "inputOk": True, "why": "", "docParsed": False, "hasSettings": False, "doc": [],
               "api": api["ops"], "apiKinds": [i["kind"] for i in api["infos"]], "decompileExit": 0, "stderr": err[-300:], "text": "", "behaviour": None}
        try:
            doc = json.loads(out)
            rec["docParsed"] = isinstance(doc, dict)
        except Exception:
            doc = None
        if rec["docParsed"] and api["status"] == "ok":
            rec["hasSettings"] = "settings" in doc and "routines" in doc
            rec["doc"] = doc_view(doc)
            rec["kind"] = "compile-only"
        return rec
    finally:
        shutil.rmtree(d, ignore_errors=True)


def lookup_cases() -> list[dict]:
    lib = "macro lib($p) { l($p); if ($p == 1) { return; } m(); }\n"
    other = "macro other() { o(); }\n"
    main = 'import "common/lib.exps";\ndef 0 { a(); ~lib(2); if ($V == 1) { b(); } end; }\n'
    main2 = 'import "common/lib.exps";\nimport "more/other.exps";\ndef 0 { ~other(); ~lib(1); end; }\n'
    out = []
    for absolute in (False, True):
        out.append({"files": {"src/scripts/in.exps": main, "macros/common/lib.exps": lib}, "main": "src/scripts/in.exps", "lookup": ["macros"], "absolute": absolute})
        out.append({"files": {"in.exps": main, "macros/common/lib.exps": lib}, "main": "in.exps", "lookup": ["macros"], "absolute": absolute})
        out.append({"files": {"a/b/in.exps": main2, "m1/common/lib.exps": lib, "m2/more/other.exps": other, "m2/common/lib.exps": "macro lib($p) { wrong($p); }\n"},
                    "main": "a/b/in.exps", "lookup": ["m1", "m2"], "absolute": absolute})
    return out


def invalid_invocations() -> tuple[list[dict], list[dict]]:
    """runs that must NOT exit with status 0: the settings document lacks a documented key, is no JSON, the input file is missing, the SSB
    document lacks settings / routines or names an unknown routine or argument type"""
    good_src = "def 0 { a(1); return; }"
    dmc = SETTINGS["dungeon_mode_constants"]
    comp = [{"src": good_src, "no_source_file": True, "input_ok": False, "why": "source file missing"},
            {"src": good_src, "settings_text": "{ not json", "input_ok": False, "why": "settings file is not JSON"},
            {"src": good_src, "settings_doc": {}, "input_ok": False, "why": "no settings key"},
            {"src": good_src, "settings_doc": {"settings": {"dungeon_mode_constants": dmc}}, "input_ok": False, "why": "performance_progress_list_var_name missing"},
            {"src": good_src, "settings_doc": {"settings": {"performance_progress_list_var_name": common.PPL}}, "input_ok": False, "why": "dungeon_mode_constants missing"}]
    for k in dmc:
        comp.append({"src": good_src, "settings_doc": {"settings": {"performance_progress_list_var_name": common.PPL, "dungeon_mode_constants": {x: y for x, y in dmc.items() if x != k}}},
                     "input_ok": False, "why": f"dungeon mode constant {k} missing"})
    ret = {"opcode": "Return", "params": []}
    rt = [{"type": "GENERIC", "ops": [ret]}]
    dec = [{"no_file": True, "input_ok": False, "why": "document file missing"},
           {"text": "[1, 2", "input_ok": False, "why": "document is not JSON"},
           {"doc": {"routines": rt}, "input_ok": False, "why": "document without settings"},
           {"doc": {"settings": SETTINGS}, "input_ok": False, "why": "document without routines"},
           {"doc": {"settings": {"performance_progress_list_var_name": common.PPL}, "routines": rt}, "input_ok": False, "why": "document without dungeon mode constants"},
           {"doc": {"settings": SETTINGS, "routines": [{"type": "NO_SUCH_TYPE", "ops": [ret]}]}, "input_ok": False, "why": "unknown routine type"},
           {"doc": {"settings": SETTINGS, "routines": [{"type": "GENERIC", "ops": [{"opcode": "x", "params": [{"type": "NO_SUCH_ARG", "value": 1}]}, ret]}]}, "input_ok": False, "why": "unknown argument type"},
           {"doc": {"settings": SETTINGS, "routines": [{"type": "COROUTINE", "ops": [ret]}]}, "input_ok": False, "why": "coroutine without name"}]
    for k in dmc:
        dec.append({"doc": {"settings": {"performance_progress_list_var_name": common.PPL, "dungeon_mode_constants": {x: y for x, y in dmc.items() if x != k}}, "routines": rt},
                    "input_ok": False, "why": f"document: dungeon mode constant {k} missing"})
    return comp, dec


def documented_docs() -> list[dict]:
    """SSB JSON documents following docs/cli_api_usage.rst: every routine type, every argument type, integer and string coordinates"""
    ret = {"opcode": "Return", "params": []}
    pm = lambda x, y: {"type": "POSITION_MARK", "value": {"name": "Mark", "x": x, "y": y}}
    args = [3, {"type": "CONSTANT", "value": "ACTOR_X"}, {"type": "FIXED_POINT", "value": "1.5"}, {"type": "CONST_STRING", "value": "String"},
            {"type": "LANG_STRING", "value": {"english": "Hello", "german": "Hallo"}}, pm(10, 20), pm("10", "10.5"), pm("3.5", 4), pm(0, "0.5"),
            # boundary values of every argument type
            0, -1, {"type": "CONST_STRING", "value": ""}, {"type": "LANG_STRING", "value": {"english": ""}}, {"type": "FIXED_POINT", "value": "0.0"},
            {"type": "FIXED_POINT", "value": "-0.5"}, {"type": "CONSTANT", "value": "X"}, pm(0, 0), {"type": "POSITION_MARK", "value": {"name": "", "x": 1, "y": 2}}]
    out = []
    for a in args:
        out.append({"routines": [{"type": "GENERIC", "ops": [{"opcode": "vars", "params": [a, 2]}, ret]}]})
    out.append({"routines": [{"type": "COROUTINE", "name": "CORO_A", "ops": [{"opcode": "a", "params": []}, ret]}]})
    out.append({"routines": [{"type": "COROUTINE", "name": "CORO_A", "ops": [{"opcode": "a", "params": []}, ret]},
                             {"type": "COROUTINE", "name": "CORO_B", "ops": [{"opcode": "b", "params": [1]}, {"opcode": "End", "params": []}]}]})
    for t, tid in (("ACTOR", 3), ("ACTOR", "ACTOR_PLAYER"), ("OBJECT", 0), ("OBJECT", "OBJ_X"), ("PERFORMER", 2), ("PERFORMER", "P_X")):
        out.append({"routines": [{"type": "GENERIC", "ops": [ret]}, {"type": t, "target_id": tid, "ops": [{"opcode": "x", "params": [1]}, {"opcode": "Hold", "params": []}]}]})
    # jumps as 1-based positions across routines
    out.append({"routines": [{"type": "GENERIC", "ops": [{"opcode": "Branch", "params": [{"type": "CONSTANT", "value": "$V"}, 1, 4]}, {"opcode": "a", "params": []},
                                                         {"opcode": "Jump", "params": [5]}, {"opcode": "b", "params": []}, ret]},
                             {"type": "ACTOR", "target_id": 1, "ops": [{"opcode": "c", "params": []}, {"opcode": "Branch", "params": [2, 2, 9]}, {"opcode": "d", "params": []}, {"opcode": "End", "params": []}]}]})
    out.append({"routines": [{"type": "GENERIC", "ops": [{"opcode": "Switch", "params": [{"type": "CONSTANT", "value": "$S"}]}, {"opcode": "Case", "params": [1, 5]},
                                                         {"opcode": "Case", "params": [2, 7]}, {"opcode": "Jump", "params": [8]}, {"opcode": "a", "params": []},
                                                         {"opcode": "Jump", "params": [8]}, {"opcode": "b", "params": []}, ret]}]})
    return out


def main() -> int:
    rep = common.Report("C15")
    rng = random.Random(common.seed() * 151 + 15)
    thorough = common.tier() == "thorough"
    fam = enum_exps.c01_family(False)
    # programs where the compiler dropped an op (offset gaps) and gap-free ones; all routine kinds; failing sources
    srcs = fam[:: (160 if not thorough else 8)] + [gen_exps.random_program(rng, max_depth=1, max_stmts=rng.choice([2, 3, 4])) for _ in range(60 if not thorough else 2000)]
    srcs += ["def 0 { switch ($S) { case 1: a(); case 2: b(); } forever { c(); } }",      # witness of the repaired 'empty trailing default'
             "def 0 { a(''); b(\"\", 0, -1, 0.0); return; }", "def 0 { a({english=''}); b(Position<'', 0, 0>); return; }",
             "def 0 { a(); return; }", "coro A { a(); return; }\ncoro B { b(); end; }", "def 0 { if ($V == 1) { a(); } b(); return; }",
             "def 0 for actor 3 { a(); hold; }\ndef 1 for object OBJ_X { while ($V == 1) { b(); } return; }", "def 0 { break; }", "def 0 { x(", "def 0 { jump @nowhere; }", ""]
    bad_c, bad_d = invalid_invocations()
    crecs = pmap(run_compile_case, [{"src": s, "with_source_map": k % 3 == 1} for k, s in enumerate(srcs)] + bad_c, limit=120.0, chunk=2)
    crecs += pmap(run_lookup_case, lookup_cases(), limit=120.0, chunk=1)
    drecs = pmap(run_decompile_case, documented_docs() + bad_d, limit=120.0, chunk=2)
    recs = crecs + drecs
    for r in recs:
        if r.get("_error") or r.get("_timeout"):
            raise common.MachineryError("harness failure: " + str(r)[-500:])
    path = os.path.join(common.scratch(), "c15.json")
    fields = ("kind", "compileExit", "apiStatus", "inputOk", "docParsed", "hasSettings", "doc", "api", "apiKinds", "decompileExit")

    def validate(rs, tag):
        with open(path, "w") as fh:
            json.dump([{f: r[f] for f in fields} for r in rs], fh)
        res = common.run_tlc("CliContract", "CliContract.cfg", {"CASES_FILE": path})
        if res["inv_errors"] and not res["viols"]:
            raise common.MachineryError("invariant violation without VIOL line:\n" + res["out"][-3000:])
        return res
    res = validate(recs, "main")
    rep.add_tlc(res)
    for v in res["viols"]:
        r = recs[int(v[0]) - 1]
        gaps = False
        if r["api"]:
            offs = [o["off"] for rt in r["api"] for o in rt]
            gaps = offs != list(range(1, len(offs) + 1))
        rep.violation("cli:" + common.tla_unquote(v[1]), {"kind": r["kind"], "src": r["src"][:1200], "compileExit": r["compileExit"], "apiStatus": r["apiStatus"],
                                                          "decompileExit": r["decompileExit"], "invocation": r.get("why", ""), "stderr": (r.get("stderr2") or r.get("stderr") or "")[-300:],
                                                          "offset_gaps_or_disorder": gaps, "routine_types": [x.get("type") for x in r["doc"]] or None})
    beh = [(i, r["behaviour"]) for i, r in enumerate(recs) if r.get("behaviour")]
    for i, b in beh:
        if b["status"] != "ok":
            rep.violation("cli:decompiled-text-rejected", {"src": recs[i]["src"][:3000], "text": recs[i]["text"][:8000]})
    ok = [(i, b) for i, b in beh if b["status"] == "ok"]
    for j, kind, det in byte_check(rep, [b for _, b in ok], "cli", "C15"):
        i = ok[j][0]
        if kind == "illformed":
            continue
        rep.violation("cli:roundtrip-behaviour:" + kind, {"src": recs[i]["src"][:1200], "text": recs[i]["text"][:1500], "detail": det})
    good = [r for r in crecs if r["apiStatus"] == "ok" and r["compileExit"] == 0 and any(o["jump"] != -1 for x in r["doc"] for o in x["ops"])][:3]
    muts = []
    for r in good:
        m = json.loads(json.dumps({f: r[f] for f in fields}))
        for x in m["doc"]:
            for o in x["ops"]:
                if o["jump"] != -1 and o["opcode"] in canon.JUMP_IDX:
                    o["jump"] += 1
                    break
        muts.append(m)
        m = json.loads(json.dumps({f: r[f] for f in fields})); m["compileExit"] = 1; muts.append(m)
        m = json.loads(json.dumps({f: r[f] for f in fields})); m["decompileExit"] = 1; muts.append(m)
    r2 = validate(muts, "selftest")
    if not muts or len(r2["viols"]) != len(muts):
        raise common.MachineryError("C15 self-test: corrupted CLI records accepted")
    rep.extra["selftest_corrupted_rejected"] = len(muts)
    rep.extra["decompile_runs_without_answer_in_time"] = sum(1 for r in crecs if r.get("inconclusive"))
    rep.traces = len(recs)
    rep.evaluations = len(recs)
    rep.nontrivial = len({r["src"] for r in crecs if r["api"] and [o["off"] for rt in r["api"] for o in rt] != list(range(1, sum(len(rt) for rt in r["api"]) + 1))})
    rep.rule = (f"{len(crecs)} runs of the compile command (subprocess) on enumerated / random / failing sources, each output fed to the decompile command, plus "
                f"{len(drecs)} hand-built documents following docs/cli_api_usage.rst; TLC validates exit statuses, document structure and jump parameters = 1-based "
                "positions against the API result, ByteEquiv validates the behaviour of the decompiled text; non-trivial = source whose internal offsets have gaps")
    rep.sample({"src": crecs[2]["src"][:300], "doc": crecs[2]["doc"][:1], "decompileExit": crecs[2]["decompileExit"]})
    rep.assumptions = ["behaviour of the round trip is only compared where the compiled routines are well-formed and the decompile command produced structured text"]
    return rep.finish()


if __name__ == "__main__":
    common.main_wrapper(main)
