"""Reference readers for literal spellings, written from docs/language_spec.rst (not from the code
under test).  Used only to turn the *text* of a literal into a canonical value token when a
source text is mapped to a node table; the normative model is spec/Literals.tla (C04), against
which these functions are cross-checked by vf/c04.py."""
from __future__ import annotations

from vf.canon import hx


def read_int(text: str) -> int:
    t = text.strip()
    neg = t.startswith("-")
    if neg:
        t = t[1:]
    low = t.lower()
    if low.startswith("0x"):
        v = int(low[2:], 16)
    elif low.startswith("0o"):
        v = int(low[2:], 8)
    elif low.startswith("0b"):
        v = int(low[2:], 2)
    else:
        v = int(t, 10)
    return -v if neg else v


def read_decimal(text: str) -> str:
    """Fixed point: the whole part is normalised (leading zeros dropped, empty = 0, a negative zero
    whole part stays `-0`), fractional digits are kept verbatim."""
    t = text.strip()
    neg = t.startswith("-")
    if neg:
        t = t[1:]
    whole, _, frac = t.partition(".")
    whole = whole.lstrip("0") or "0"
    if neg:
        whole = "-" + whole
    return f"{whole}.{frac if frac != '' else '0'}"


def read_single(lit: str) -> str:
    """Single-line literal incl. its quotes.  Escapes: \\n newline, \\' and \\" the quote; any other
    backslash pair is kept as written (the specification names only these three)."""
    body = lit[1:-1]
    out = []
    i = 0
    while i < len(body):
        ch = body[i]
        if ch == "\\" and i + 1 < len(body):
            nx = body[i + 1]
            if nx == "n":
                out.append("\n")
                i += 2
                continue
            if nx in "'\"":
                out.append(nx)
                i += 2
                continue
            out.append(ch)
            out.append(nx)
            i += 2
            continue
        out.append(ch)
        i += 1
    return "".join(out)


def read_multi(lit: str) -> str:
    """Multi-line literal incl. its triple quotes, by the four documented rules."""
    body = lit[3:-3]
    lines = body.split("\n")
    if len(lines) > 1 and lines[-1] == "":
        lines.pop()    # lines are terminated, not separated, by newlines
    first = lines[0]
    rest = lines[1:]
    last_removed = False
    if rest:
        last = rest[-1]
        if last.strip(" ") == "":
            rest = rest[:-1]  # indentation-only last line: fully removed
            last_removed = True
    ind = [len(ln) - len(ln.lstrip(" ")) for ln in rest]
    mn = min(ind) if ind else 0
    rest = [ln[mn:] for ln in rest]
    parts = ([first] if first != "" else []) + rest
    if not parts:
        return ""
    if first == "":
        return "\n".join(rest)
    return "\n".join([first] + rest)


def read_string(lit: str) -> str:
    if lit.startswith("'''") or lit.startswith('"""'):
        if len(lit) >= 6:
            return read_multi(lit)
    return read_single(lit)


def int_tok(text: str) -> str:
    return f"i:{read_int(text)}"


def dec_tok(text: str) -> str:
    return f"f:{read_decimal(text)}"


def str_tok(lit: str) -> str:
    return "s:" + hx(read_string(lit))


def pos_arg(text: str) -> tuple[int, int]:
    """position mark coordinate -> (tile, half-tile offset 0|2)"""
    t = text.strip()
    if "." not in t:
        return read_int(t), 0
    whole, _, frac = t.partition(".")
    tile = int(whole) if whole not in ("", "-") else 0
    frac = frac.rstrip("0")
    return tile, (2 if frac == "5" else 0)
