"""Real-code drivers shared by several checks: compile a source text and record the observable result."""
from __future__ import annotations

import os

from vf import common, canon, parsetree

ALLOWED_COMPILE_ERRORS = ("ParseError", "SsbCompilerError", "ValueError")


def compile_text(src: str, path: str = "/vf-nonexistent/main.exps", lookup: list[str] | None = None) -> dict:
    """ExplorerScriptSsbCompiler.compile() on `src`; returns
    {status: ok|<ExceptionType>, err, ops, infos, sm (serialised source map), imports, mro}"""
    from explorerscript.ssb_converting.ssb_compiler import ExplorerScriptSsbCompiler
    out = {"status": "ok", "err": "", "ops": [], "infos": [], "sm": None, "mro": [], "ncoros": 0, "ninfos": 0}
    try:
        c = ExplorerScriptSsbCompiler(common.PPL, lookup or [])
        c.compile(src, path)
        out["ops"] = canon.ops_recs(c.routine_ops, jump_last=True)
        out["infos"] = canon.infos_recs(c.routine_infos, c.named_coroutines)
        out["ninfos"] = len(c.routine_infos)
        out["ncoros"] = len(c.named_coroutines)
        out["sm"] = c.source_map.serialize() if c.source_map is not None else None
        out["mro"] = list(c.macro_resolution_order)
    except BaseException as ex:
        from vf.pool import CaseTimeout
        if isinstance(ex, (CaseTimeout, KeyboardInterrupt)):
            raise
        out["status"] = type(ex).__name__
        out["err"] = str(ex)[:300]
    return out


def source_case(src: str) -> dict:
    """Parse `src` into a node table and compile it with the real compiler -> one product case."""
    comp = compile_text(src)
    case = {"src": src, "status": comp["status"], "err": comp["err"]}
    if comp["status"] != "ok":
        return case
    try:
        tab = parsetree.parse(src)
    except Exception as ex:  # compiler accepted but the grammar walk failed: harness problem
        case["status"] = "harness:" + type(ex).__name__
        case["err"] = str(ex)[:300]
        return case
    attach_rix(tab)
    case.update({"nodes": tab["nodes"], "par": tab["par"], "routines": tab["routines"], "macros": tab["macros"],
                 "ops": comp["ops"], "infos": comp["infos"], "sm": comp["sm"], "posmarks": tab["posmarks"]})
    return case


def attach_rix(tab: dict) -> None:
    """1-based index into the compiled routine table: `def N` -> N+1, coroutines -> order of appearance
    continuing from the previous routine (the documented numbering)."""
    prev = -1
    for r in tab["routines"]:
        if r["kind"] == "COROUTINE":
            prev = prev + 1
            r["target"] = "i:0"
        else:
            prev = r["id"]
            if r["kind"] == "GENERIC":
                r["target"] = "i:0"
        r["rix"] = prev + 1


TLC_FIELDS = ("nodes", "par", "routines", "macros", "ops", "infos")


def tlc_view(case: dict) -> dict:
    v = {k: case[k] for k in TLC_FIELDS}
    # strictSrc: a silent cycle in the SOURCE is a violation too (C02: the text must behave like a well-formed
    # input, which has none); for C01/C05 such programs are outside the property's domain
    v["strictSrc"] = bool(case.get("strictSrc", False))
    return v
