"""Generators of SSB routine sets in record form ({off, op, ps, tgt}) - the inputs a binary reader
delivers.  `arbitrary_sets` is C07's domain (no well-formedness filter); well-formed flow graphs for
C02 / C06 / C09 are in vf/gen_flow.py."""
from __future__ import annotations

import random

from vf.canon import hx

BRANCH_AR = {
    "Branch": 2, "BranchBit": 2, "BranchDebug": 1, "BranchEdit": 1, "BranchExecuteSub": 1, "BranchPerformance": 2,
    "BranchScenarioNow": 3, "BranchScenarioNowAfter": 3, "BranchScenarioNowBefore": 3, "BranchScenarioAfter": 3,
    "BranchScenarioBefore": 3, "BranchSum": 3, "BranchValue": 3, "BranchVariable": 3, "BranchVariation": 1,
}
CASE_AR = {"Case": 1, "CaseMenu": 1, "CaseMenu2": 1, "CaseScenario": 2, "CaseValue": 2, "CaseVariable": 2}
JUMP_AR = dict(BRANCH_AR)
JUMP_AR.update(CASE_AR)
JUMP_AR.update({"Jump": 0, "Call": 0})

PLAIN_NAMES = ["a", "b", "Wait", "message_Talk", "camera_Move2Default", "se_Play", "back_SetGround", "Lock", "x_1",
               "Switch", "SwitchScenario", "message_SwitchMenu", "lives", "object", "performer", "Return", "End",
               "Hold", "JumpCommon", "Destroy", "flag_Set", "flag_CalcValue", "message_SwitchTalk", "CaseText",
               "DefaultText", "ProcessSpecial", "WaitExecuteLives", "_u", "Z9"]

SIMPLE_STRS = ["", "x", "Hello World", "ab c", "né", "日本", "a-b", "1", "  lead", "trail  ", "q?!",
               "a\n\nb", "l1\nl2", "\nlead", "trail\n", "it's", 'say "hi"', "a\n\n\nb\n"]   # multi-line values incl. empty lines, quotes
CONSTS = ["ACTOR_PLAYER", "$SCENARIO_MAIN", "$X", "DMODE_OPEN", "LEVEL_A", "_c", "$PERFORMANCE_PROGRESS_LIST", "FALSE_"]
LANGS = ["english", "french", "german", "italian", "spanish", "japanese"]


def rand_param(rng: random.Random, plain: bool = True) -> str:
    k = rng.randrange(8)
    if k <= 2:
        return f"i:{rng.choice([0, 1, 2, 3, 5, 10, -1, -7, 255, 32767, 1000])}"
    if k == 3:
        return f"c:{rng.choice(CONSTS)}"
    if k == 4:
        return f"s:{hx(rng.choice(SIMPLE_STRS))}"
    if k == 5:
        n = rng.randint(1, 3)
        langs = sorted(rng.sample(LANGS, n))
        return "l:" + ";".join(f"{la}={hx(rng.choice(SIMPLE_STRS))}" for la in langs)
    if k == 6:
        xo = rng.choice([0, 0, 2])
        yo = rng.choice([0, 0, 2])
        return f"p:{hx(rng.choice(['m0', 'Mark', 'a b', 'é']))},{xo},{yo},{rng.randint(0, 60)},{rng.randint(0, 60)}"
    w = rng.choice(["0", "1", "12", "-3", "-0", "63"])
    return f"f:{w}.{rng.choice(['0', '5', '25', '004', '50', '125'])}"


def arbitrary_set(rng: random.Random, max_routines: int = 4, max_ops: int = 6) -> dict:
    """Any routine set with in-range jump targets: unreachable ops, arbitrary opcode names, jumps
    between routines, empty (alias) routines, every routine kind."""
    nr = rng.randint(1, max_routines)
    coro = rng.random() < 0.2
    routines, infos = [], []
    off = rng.choice([0, 0, 0, 1, 4])
    allops = []
    for r in range(nr):
        n = rng.choice([0, 1, 2, 3, 3, 4, 5, max_ops]) if r > 0 or nr > 1 else rng.randint(1, max_ops)
        ops = []
        for _ in range(n):
            if rng.random() < 0.4:
                name = rng.choice(list(JUMP_AR))
                ps = [rand_param(rng) for _ in range(JUMP_AR[name])]
                o = {"off": off, "op": name, "ps": ps, "tgt": -2, "pseudo": False}
            else:
                name = rng.choice(PLAIN_NAMES)
                ps = [rand_param(rng) for _ in range(rng.choice([0, 0, 1, 1, 2, 3, 5]))]
                o = {"off": off, "op": name, "ps": ps, "tgt": -1, "pseudo": False}
            ops.append(o)
            allops.append(o)
            off += rng.choice([1, 1, 1, 2, 3, 7])
        routines.append(ops)
        if coro:
            infos.append({"kind": "COROUTINE", "target": "i:0", "coro": f"CORO_{r}"})
        else:
            kind = rng.choice(["GENERIC", "GENERIC", "ACTOR", "OBJECT", "PERFORMER"])
            if kind == "GENERIC":
                infos.append({"kind": kind, "target": "i:0", "coro": ""})
            else:
                tg = rng.choice(["i:0", "i:3", "i:12", "c:ACTOR_PLAYER", "c:OBJ_X"])
                infos.append({"kind": kind, "target": tg, "coro": ""})
    if not coro and nr >= 2 and rng.random() < 0.25:
        # mixed kinds: some coroutines among other routines (the coroutine table then is NOT aligned with routine indices)
        for r in range(nr):
            if rng.random() < 0.5:
                infos[r] = {"kind": "COROUTINE", "target": "i:0", "coro": f"CORO_{r}"}
    if not allops:
        return arbitrary_set(rng, max_routines, max_ops)
    for o in allops:
        if o["tgt"] == -2:
            o["tgt"] = rng.choice(allops)["off"]
    return {"routines": routines, "infos": infos}


def exhaustive_small_sets(max_total: int = 3) -> list[dict]:
    """All routine sets over a 4-kind alphabet {plain, Jump, Branch, Return} with <= max_total ops in
    1..2 routines and every assignment of jump targets: exhaustive lower layer for C07."""
    out = []
    alphabet = ["a", "Jump", "Branch", "Return"]

    def rec(seq):
        if 0 < len(seq) <= max_total:
            yield list(seq)
        if len(seq) < max_total:
            for a in alphabet:
                yield from rec(seq + [a])

    import itertools
    for names in rec([]):
        n = len(names)
        for split in range(1, n + 1):  # routine 0 has `split` ops, routine 1 the rest (maybe empty -> alias)
            jidx = [i for i, a in enumerate(names) if a in ("Jump", "Branch")]
            for tgts in itertools.product(range(n), repeat=len(jidx)):
                ops = []
                for i, a in enumerate(names):
                    ps = [] if a in ("Jump", "Return") else (["c:$X", "i:1"] if a == "Branch" else ["i:%d" % i])
                    ops.append({"off": 2 * i, "op": a, "ps": ps, "tgt": -1, "pseudo": False})
                for k, i in enumerate(jidx):
                    ops[i]["tgt"] = 2 * tgts[k]
                rs = [ops[:split], ops[split:]]
                infos = [{"kind": "GENERIC", "target": "i:0", "coro": ""}, {"kind": "ACTOR", "target": "c:A", "coro": ""}]
                out.append({"routines": rs, "infos": infos})
    return out
