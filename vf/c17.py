"""C17  The highlighting lexer is total and loses no text.  Spec: spec/PygLexer.tla."""
from __future__ import annotations

import itertools
import json
import os
import random

from vf import common, drive, gen_exps, enum_exps
from vf.pool import pmap

SIGMA = [chr(c) for c in (105, 102, 97, 98, 120, 106, 48, 49, 53, 56, 46, 36, 64, 167, 34, 39, 47, 42, 10, 32)]


def cps(s):
    return [ord(c) for c in s]


def lex_case(arg) -> dict:
    text, accepted, raw = arg
    from explorerscript.pygments.expslexer import ExplorerScriptLexer
    rec = {"text": cps(text), "accepted": accepted, "raw": raw, "status": "ok", "tokens": [], "expected": []}
    try:
        lx = ExplorerScriptLexer()
        if raw:
            toks = [(str(t)[6:], v) for _, t, v in lx.get_tokens_unprocessed(text)]
            rec["expected"] = cps(text)
        else:
            toks = [(str(t)[6:], v) for t, v in lx.get_tokens(text)]
            norm = text[1:] if text.startswith("\ufeff") else text     # Pygments' documented preprocessing: BOM, newlines, stripnl, ensurenl
            norm = norm.replace("\r\n", "\n").replace("\r", "\n").strip("\n")
            rec["expected"] = cps(norm + "\n")
        rec["tokens"] = [{"ty": t, "s": cps(v)} for t, v in toks]
    except Exception as ex:
        rec["status"] = type(ex).__name__ + ": " + str(ex)[:100]
    return rec


SQ, DQ, BS, NL = "'", '"', "\\", "\n"


def literal_programs(maxlen: int) -> list[str]:
    """one-statement programs around every spelling of a string literal: each quote style x every body of length <= maxlen over
    pieces that interact with the string states of the lexer (own / other quote, runs of quotes, escapes, newline); plus number,
    constant, position-mark and language-string spellings.  Whether the compiler accepts each one is established by compiling it."""
    pieces = ["a", SQ, DQ, BS + SQ, BS + DQ, BS + "n", NL, " "]
    out = []
    for q in (SQ, DQ, SQ * 3, DQ * 3):
        for n in range(0, maxlen + 1):
            for body in itertools.product(pieces, repeat=n):
                out.append("def 0 {\n    msg(" + q + "".join(body) + q + ");\n}\n")
    lits = ["-01.5", "007.250", "-.5", ".5", "0x1F", "0XaB", "0b101", "0o17", "-0x10", "$V", "CONST_X", "Position<'m', 1, 2>",
            'Position<"m m", 1.5, 0>', "Position<\n 'm' , /* c */ 2.5 ,\n 3 >", "{english='a', german=\"b\"}", "{english='''x\n  y''',}",
            "$V[3]", "scn[1, 2]"]
    for lit in lits:
        out.append("def 0 {\n    op(" + lit + ");\n}\n")
        out.append("def 0 { op(1," + lit + ",/*c*/" + lit + "); } // tail")
    return out


def respelled_programs(rng: random.Random, n: int) -> list[str]:
    """accepted programs in unusual layouts: the re-spellings of C16 (comments at token boundaries, CRLF, line joining, bases, quote styles)"""
    from vf import c16
    out = []
    for _ in range(n):
        src = gen_exps.random_program(rng, 2)
        toks = c16.tokenize(src)
        seps, alts = ["space"] * (len(toks) - 1), {}
        for s in c16.plan(rng, src, 12):
            if s["a"] == "SetSeparator":
                seps[s["i"] - 1] = s["w"]
            else:
                alts[s["i"] - 1] = (s["a"], s.get("w", ""))
        out.append(c16.render(toks, seps, alts))
    return out


def validate(rep, recs, tag):
    out, drift = [], []
    # batches bounded by volume (code points), not only by count: texts are passed as sequences of code points and a batch of
    # thousands of long programs would make TLC spend its time deserialising and collecting garbage
    k = 0
    while k < len(recs):
        n, vol = 0, 0
        while k + n < len(recs) and n < 4000 and (n == 0 or vol + len(recs[k + n]["text"]) <= 600000):
            vol += len(recs[k + n]["text"])
            n += 1
        path = os.path.join(common.scratch(), f"c17-{tag}-{k}.json")
        with open(path, "w") as fh:
            json.dump(recs[k:k + n], fh)
        res = common.run_tlc("PygLexer", "PygLexer_cases.cfg", {"CASES_FILE": path})
        os.unlink(path)
        rep.add_tlc(res)
        for v in res["viols"]:
            out.append((k + int(v[0]) - 1, common.tla_unquote(v[1])))
        for pr in res["prints"]:
            if pr and common.tla_unquote(pr[0]) == "DRIFT":
                drift.append(k + int(pr[1]) - 1)
        k += n
    return out, drift


def main() -> int:
    rep = common.Report("C17")
    rng = random.Random(common.seed() * 331 + 17)
    thorough = common.tier() == "thorough"
    res = common.run_tlc("PygLexer", "PygLexer_design4.cfg" if thorough else "PygLexer_design.cfg")
    rep.add_tlc(res)
    if res["inv_errors"]:
        rep.violation("lexer-design", {"tlc": res["out"][-1500:]})
    args = []
    maxlen = 4 if thorough else 3
    for n in range(0, maxlen + 1):
        for t in itertools.product(SIGMA, repeat=n):
            args.append(("".join(t), False, True))
    n_exh = len(args)
    progs = enum_exps.c01_family(False)[:: (40 if not thorough else 6)] + [gen_exps.random_program(rng, 3) for _ in range(200 if not thorough else 2000)]
    n_lit = len(progs)
    progs += literal_programs(maxlen)
    progs += respelled_programs(rng, 60 if not thorough else 600)
    comp = pmap(drive.compile_text, progs)
    rep.extra["literal_and_respelled_programs"] = {"count": len(progs) - n_lit, "accepted": sum(1 for c in comp[n_lit:] if c.get("status") == "ok")}
    for p, c in zip(progs, comp):
        acc = c.get("status") == "ok"
        args.append((p, acc, True))
        args.append((p, acc, False))
    alpha = list("abcXYZ_$~@§0123456789 \t\n\r{}()[]<>;:,.'\"\\/*=+-!&^|#?") + ["é", "日", "本", " ", "\x00", "\x0c", "﻿", "𝔘", "'''", '"""', "//", "/*", "*/", "0x", "0b", ".5"]
    for _ in range(1500 if not thorough else 15000):
        s = "".join(rng.choice(alpha) for _ in range(rng.randint(0, 40)))
        args.append((s, False, rng.random() < 0.5))
    for s in ["", "\n", "\n\n\nabc", "abc\n\n\n", "\r\nabc\r\n", "'unterminated", '"""unterminated', "/* unterminated", "// no newline at end", "'''a'b'''", '"a\\"b"', "0779j", "00", ".5.5", "5", " 5", "if0 iff if", "for_actor forever for", "break_loop break", "menu2 menu", "§l @l $v ~m",
              # long names in every position (a rule with nested quantifiers needs exponential time on them)
              "A" * 64, "a_long_identifier_" * 4 + " x", "def 0 { op(" + "VERY_LONG_CONSTANT_NAME_" * 3 + "); }", "coro " + "LongCoroutineName" * 4 + " { end; }",
              "$" + "variable_name_" * 5 + " = 1;", "@" + "label" * 12 + ";", "~" + "macro" * 12 + "(1);", "x" * 40 + "(1);", "0" * 50, "1" * 40 + ".5", "_" * 70]:
        args.append((s, False, True))
        args.append((s, False, False))
    # termination first, on a small probe (the hand-picked texts incl. unterminated strings / comments, and a few hundred of the
    # others): a lexer that does not terminate on a class of inputs would make the full run wait 10 s for thousands of cases
    probe = args[-64:] + args[n_exh:n_exh + 40] + args[::max(1, len(args) // 300)]
    hung = [a for a, r in zip(probe, pmap(lex_case, probe, limit=10.0, chunk=4)) if r.get("_timeout")]
    if hung:
        for a in hung[:10]:
            rep.violation("lexer:lexer-raised-or-hung", {"text": a[0][:300], "tokens": [], "accepted": a[1], "raw": a[2], "status": "no answer within 10 s"})
        rep.traces = len(probe)
        rep.evaluations = len(probe)
        rep.rule = "termination probe only: the lexer did not answer within 10 s on some inputs, the full run was not started"
        return rep.finish()
    recs = pmap(lex_case, args, limit=10.0, chunk=64)
    for i, r in enumerate(recs):
        if r.get("_error"):
            raise common.MachineryError("harness error: " + r["_error"])
        if r.get("_timeout"):
            recs[i] = {"text": cps(args[i][0]), "accepted": args[i][1], "raw": args[i][2], "status": "no answer within 10 s", "tokens": [], "expected": []}
    viols, drift = validate(rep, recs, "main")
    for i, kind in viols:
        r = recs[i]
        rep.violation("lexer:" + kind, {"text": "".join(map(chr, r["text"])), "tokens": [[t["ty"], "".join(map(chr, t["s"]))] for t in r["tokens"]][:60],
                                        "accepted": r["accepted"], "raw": r["raw"], "status": r["status"]})
    good = [r for r in recs if r["status"] == "ok" and len(r["tokens"]) >= 2][:3]
    muts = []
    for r in good:
        m = json.loads(json.dumps(r)); m["tokens"] = m["tokens"][:-1]; muts.append(m)
        m = json.loads(json.dumps(r)); m["tokens"][0]["ty"] = "Error"; m["accepted"] = True; muts.append(m)
    tmp = common.Report("C17"); tmp.known = []
    got, _ = validate(tmp, muts, "selftest")
    if not muts or len(got) != len(muts):
        raise common.MachineryError("C17 self-test: corrupted token streams accepted")
    rep.extra["selftest_corrupted_rejected"] = len(muts)
    rep.extra["model_drift_cases"] = {"count": len(drift), "examples": ["".join(map(chr, recs[i]["text"]))[:80] for i in drift[:5]]}
    rep.traces = len(recs)
    rep.evaluations = len(recs)
    rep.nontrivial = len({tuple(r["text"]) for r in recs if len(r["tokens"]) >= 2})
    rep.rule = (f"all {n_exh} strings of length <= {maxlen} over a 20-character alphabet that drives every rule (also lexed by the TLA+ model of the RegexLexer "
                "loop), compiler-accepted and rejected program texts through get_tokens_unprocessed and get_tokens, random unicode text; TLC judges "
                "concatenation = input (resp. Pygments' documented normalisation) and absence of Error tokens on accepted sources; non-trivial = >=2 tokens")
    rep.sample({"text": "".join(map(chr, recs[n_exh + 1]["text"]))[:200], "tokens": [[t["ty"], "".join(map(chr, t["s"]))] for t in recs[n_exh + 1]["tokens"]][:12]})
    rep.assumptions = ["get_tokens applies Pygments' documented preprocessing (newline normalisation, stripping of leading/trailing newlines, one final newline); "
                       "exact losslessness is judged on get_tokens_unprocessed",
                       "disagreement between the TLA+ transcription of the rule table and the real token stream is reported as model drift in the evidence, never as a verdict"]
    return rep.finish()


if __name__ == "__main__":
    common.main_wrapper(main)
