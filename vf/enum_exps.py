"""Systematically enumerated ExplorerScript programs: every construct shape in one-hole contexts
pre . S . post, and every ordered pair (outer construct, inner construct).  Deterministic: the
same list on every run, so the evidence can name the bound."""
from __future__ import annotations

import itertools

from vf.gen_exps import print_program, COND_OPS, ASSIGN_OPS, SCN_OPS, PPL


class Ctr:
    def __init__(self):
        self.k = 0

    def op(self):
        self.k += 1
        return ("op", f"o{self.k}", [str(self.k)], None)

    def cond(self):
        self.k += 1
        return f"$V == {self.k}"


def bodies(c: Ctr, in_loop=False, in_case=False, small=False):
    """block alphabet: empty, op, op op, lone jump, terminator, op+terminator, ... (fresh ops each call)"""
    out = [[], [c.op()], [("jump", "LE")], [("ctrl", "return")]]
    if not small:
        out += [[c.op(), c.op()], [c.op(), ("ctrl", "end")], [c.op(), ("jump", "LS")], [("jump", "LS")], [("ctrl", "hold")],
                [("call", "LE"), c.op()]]
    if in_loop:
        out += [[("ctrl", "continue")], [("ctrl", "break_loop")], [c.op(), ("ctrl", "continue")], [c.op(), ("ctrl", "break_loop")]]
    if in_case:
        out += [[("ctrl", "break")], [c.op(), ("ctrl", "break")]]
    return out


def contexts(c: Ctr, stmts: list, thorough: bool):
    """one-hole contexts: labels LS (routine start) and LE (near the end) are always defined"""
    pres = [[], [c.op()]]
    posts = [[("label", "LE")], [("label", "LE"), c.op()], [c.op(), ("label", "LE"), ("ctrl", "return")],
             [("label", "LE"), ("ctrl", "end")]]
    if thorough:
        posts += [[("label", "LE"), c.op(), ("ctrl", "hold")], [c.op(), c.op(), ("label", "LE")]]
    for pre in pres:
        for post in posts:
            yield [("label", "LS")] + pre + stmts + post


def wrap(body: list, nr: int = 1, which: int = 0, header="def {i}") -> str:
    routines = []
    for i in range(nr):
        if i == which:
            routines.append((header.format(i=i), body))
        else:
            routines.append((f"def {i}", [("op", f"filler{i}", [], None), ("ctrl", "return")]))
    return print_program(routines)


def if_shapes(c: Ctr, thorough: bool, in_loop=False, in_case=False):
    for neg in (False, True):
        for nh in (1, 2):
            for body in bodies(c, in_loop, in_case, small=not thorough):
                base = (neg, [c.cond() for _ in range(nh)], body)
                yield ("if", [base], None)
                for eb in bodies(c, in_loop, in_case, small=True):
                    yield ("if", [base], eb)
                for neg2 in (False, True):
                    for b2 in bodies(c, in_loop, in_case, small=True):
                        yield ("if", [base, (neg2, [c.cond()], b2)], None)
                        yield ("if", [base, (neg2, [c.cond()], b2)], [c.op()])
    if thorough:
        for negs in itertools.product((False, True), repeat=3):
            arms = [(ng, [c.cond(), c.cond()], [c.op()]) for ng in negs]
            yield ("if", arms, None)
            yield ("if", arms, [c.op()])


def case_bodies(c: Ctr, thorough: bool, in_loop=False):
    out = [[], [c.op()], [c.op(), ("ctrl", "break")], [("ctrl", "break")], [("ctrl", "return")], [("jump", "LE")]]
    if thorough:
        out += [[c.op(), c.op()], [c.op(), ("jump", "LS")], [("jump", "LS")], [c.op(), ("ctrl", "end")]]
    if in_loop:
        out += [[("ctrl", "continue")], [c.op(), ("ctrl", "break_loop")]]
    return out


def switch_shapes(c: Ctr, thorough: bool, in_loop=False):
    hdrs = ["$SW"] if not thorough else ["$SW", "scn($S)[0]", "sector()"]
    for h in hdrs:
        yield ("switch", h, [])
        for n in (1, 2, 3):
            for bs in itertools.product(range(len(case_bodies(Ctr(), thorough, in_loop))), repeat=n):
                if n == 3 and len(set(bs)) == 3 and bs[0] > 2:
                    continue
                if n == 3 and thorough and max(bs) > 6:
                    continue
                cb = [case_bodies(c, thorough, in_loop)[b] for b in bs]
                cases = [(str(10 + i) if i % 2 == 0 else f"> {10 + i}", cb[i]) for i in range(n)]
                if not cases[-1][1]:
                    continue  # a switch ending in an empty case is invalid (C10)
                yield ("switch", h, cases)
                # default in every position, with bodies
                for dpos in range(n + 1):
                    for db in ([], [c.op()], [c.op(), ("ctrl", "break")], [("ctrl", "break")]):
                        cs = list(cases)
                        cs.insert(dpos, (None, db))
                        if not cs[-1][1]:
                            continue
                        if n == 3 and dpos not in (0, 3) and not (thorough and h == "$SW" and max(bs) < 4):
                            continue
                        yield ("switch", h, cs)


def loop_shapes(c: Ctr, thorough: bool, in_case=False):
    def lbodies():
        out = bodies(c, True, in_case, small=not thorough)
        out += [[("if", [(False, [c.cond()], [("ctrl", "continue")])], None), c.op()],
                [("if", [(False, [c.cond()], [("ctrl", "break_loop")])], None), c.op()],
                [c.op(), ("if", [(True, [c.cond()], [("ctrl", "break_loop")])], [("ctrl", "continue")])],
                [("if", [(False, [c.cond()], [c.op(), ("ctrl", "break_loop")])], [c.op()])]]
        return out
    for b in lbodies():
        yield ("forever", b)
    for neg in (False, True):
        for b in lbodies():
            yield ("while", neg, c.cond(), b)
    for b in lbodies():
        yield ("for", ("asg", "$I = 0"), c.cond(), ("asg", "$I += 1"), b)
    yield ("for", c.op(), c.cond(), c.op(), [c.op()])


def plain_forms(c: Ctr):
    out = []
    for o in COND_OPS:
        out.append(("if", [(False, [f"$V {o} 3"], [c.op()])], None))
        out.append(("if", [(False, [f"$V {o} value($W)"], [c.op()])], None))
        out.append(("switch", "$SW", [(f"{o} 4", [c.op(), ("ctrl", "break")]), (f"{o} value($Q)", [c.op()])]))
        out.append(("switch", "scn($S)[0]", [(f"{o} 4", [c.op(), ("ctrl", "break")]), ("5", [c.op()])]))
    for o in SCN_OPS:
        out.append(("if", [(False, [f"scn($S) {o} [3, 1]"], [c.op()])], None))
    for h in ["$V[3]", f"{PPL}[2]", f"not {PPL}[2]", "debug", "not debug", "edit", "not edit", "variation", "not variation",
              "BranchSum(1, 2, 3)", "BranchExecuteSub(7)", "GV[0]", "7 == 7", "X == Y"]:
        out.append(("if", [(False, [h], [c.op()])], None))
        out.append(("if", [(True, [h], [c.op()])], [c.op()]))
        out.append(("while", False, h, [c.op()]))
    for h in ["$SW", "scn($S)[0]", "scn($S)[1]", "random(5)", "dungeon_mode(D_X)", "sector()", "ProcessSpecial(1, 2, 3)",
              "message_Menu(3)", "main_EnterAdventure(1, 2)", "message_SwitchMenu(1, 2)"]:
        out.append(("switch", h, [("1", [c.op(), ("ctrl", "break")]), ('menu("Yes")', [c.op(), ("ctrl", "break")]),
                                  ("menu2(4)", [c.op()]), ("menu({english='y', french='o'})", [c.op()]), (None, [c.op()])]))
    for o in ASSIGN_OPS:
        out.append(("asg", f"$V {o} 3"))
        out.append(("asg", f"$V {o} value($W)"))
    for t in ["$V[3] = 1", "$V[0] = 0", f"{PPL}[3] = 1", f"{PPL}[4] = 0", "clear $V", "init $V", "reset scn($V)",
              "reset dungeon_result", "adventure_log = 3", "dungeon_mode(3) = 2", "dungeon_mode(D_X) = DMODE_OPEN",
              "$V = scn[1, 2]", "5 = 3", "GV = X"]:
        out.append(("asg", t))
    for k in ("actor", "object", "performer"):
        out.append(("with", k, "ACTOR_X", c.op()))
        out.append(("with", k, "3", ("asg", "$V = 1")))
        out.append(("op", "inl", ["1"], (k, "ACTOR_Y")))
    out.append(("msw", "message_SwitchTalk", "$V", [("1", "'a'"), ("2", "{english='b'}")], "'d'"))
    out.append(("msw", "message_SwitchMonologue", "3", [("1", "'a'")], None))
    out.append(("msw", "message_SwitchTalk", "$V", [], "{english='only default'}"))
    out.append(("msw", "message_SwitchTalk", "$V", [], None))
    for nm in ["Wait", "Hold2", "JumpCommon", "Destroy", "End2", "message_Talk"]:
        out.append(("op", nm, ["1"], None))
    return out


def nested_pairs(c: Ctr, thorough: bool):
    def inners(in_loop, in_case):
        ins = [c.op(), ("if", [(False, [c.cond()], [c.op()])], None), ("if", [(True, [c.cond()], [c.op()])], [c.op()]),
               ("if", [(False, [c.cond(), c.cond()], [("jump", "LE")])], None),
               ("switch", "$SW", [("1", [c.op(), ("ctrl", "break")]), ("2", [c.op()]), (None, [c.op()])]),
               ("switch", "$SW", [("1", []), ("2", [c.op(), ("ctrl", "break")])]),
               ("forever", [c.op(), ("if", [(False, [c.cond()], [("ctrl", "break_loop")])], None)]),
               ("while", False, c.cond(), [c.op()]), ("while", True, c.cond(), [c.op()]),
               ("for", ("asg", "$I = 0"), c.cond(), ("asg", "$I += 1"), [c.op()]),
               ("msw", "message_SwitchTalk", "$V", [("1", "'a'")], "'d'"), ("with", "actor", "A", c.op())]
        if in_loop:
            ins += [("if", [(False, [c.cond()], [("ctrl", "continue")])], [("ctrl", "break_loop")]),
                    ("switch", "$SW", [("1", [("ctrl", "continue")]), ("2", [c.op(), ("ctrl", "break")]), (None, [("ctrl", "break_loop")])])]
        if in_case:
            ins += [("if", [(False, [c.cond()], [("ctrl", "break")])], None),
                    ("forever", [c.op(), ("ctrl", "break")]), ("while", False, c.cond(), [("ctrl", "break")])]
        return ins

    def places(inner):
        return [[inner], [c.op(), inner], [inner, c.op()]]

    for inner_factory_idx in range(len(inners(True, True))):
        pass
    outers = []
    # (builder, in_loop, in_case)
    outers.append((lambda b: ("if", [(False, [c.cond()], b)], None), False, False))
    outers.append((lambda b: ("if", [(True, [c.cond()], b)], None), False, False))
    outers.append((lambda b: ("if", [(False, [c.cond()], [c.op()])], b), False, False))
    outers.append((lambda b: ("if", [(False, [c.cond()], [c.op()]), (False, [c.cond()], b)], [c.op()]), False, False))
    outers.append((lambda b: ("switch", "$SW", [("1", b), ("2", [c.op()])]), False, True))
    outers.append((lambda b: ("switch", "$SW", [("1", [c.op()]), ("2", b + [("ctrl", "break")]), (None, [c.op()])]), False, True))
    outers.append((lambda b: ("switch", "$SW", [(None, b), ("2", [c.op()])]), False, True))
    outers.append((lambda b: ("forever", b), True, False))
    outers.append((lambda b: ("while", False, c.cond(), b), True, False))
    outers.append((lambda b: ("while", True, c.cond(), b), True, False))
    outers.append((lambda b: ("for", ("asg", "$I = 0"), c.cond(), ("asg", "$I += 1"), b), True, False))
    for build, il, ic in outers:
        for inner in inners(il, ic):
            for body in places(inner):
                yield build(body)


def label_graphs(c: Ctr, thorough: bool):
    """labels x jump x call graphs on <=3 labels: forward, backward, into and out of blocks, across routines"""
    progs = []
    spots = ["start", "mid", "inif", "inloop", "incase", "end"]
    for a, b in itertools.permutations(spots, 2):
        for kind in ("jump", "call"):
            def lab(s, name):
                return [("label", name)] if s == name_spot[name] else []
            name_spot = {"A": a, "B": b}

            def at(s):
                return [("label", n) for n, sp in name_spot.items() if sp == s]
            body = at("start") + [c.op(), (kind, "A")] + at("mid") + [
                ("if", [(False, [c.cond()], at("inif") + [c.op(), (kind, "B")])], None),
                ("while", False, c.cond(), at("inloop") + [c.op()]),
                ("switch", "$SW", [("1", at("incase") + [c.op(), ("ctrl", "break")]), ("2", [c.op()])]),
                c.op()] + at("end")
            progs.append(wrap(body))
            progs.append(wrap(body + [("ctrl", "return")]))
    # across routines
    for kind in ("jump", "call"):
        r0 = [c.op(), (kind, "X1"), c.op(), ("label", "X0"), c.op(), ("ctrl", "return")]
        r1 = [("label", "X1"), c.op(), ("if", [(False, [c.cond()], [(kind, "X0")])], None), c.op(), ("ctrl", "end")]
        progs.append(print_program([("def 0", r0), ("def 1 for actor A", r1)]))
        progs.append(print_program([("coro A", r0), ("coro B", r1)]))
    # across routines, every spot of the target routine incl. spots that only a jump can reach (behind return / jump / break), with the
    # jumping routine before and after the target routine, and the target routine ending in the switch or in further code
    spots2 = ["start", "mid", "inif", "behind-return", "inloop", "incase", "behind-jump", "behind-break", "end"]
    for a, b in itertools.permutations(spots2, 2):
        if not thorough and (spots2.index(a) + 2 * spots2.index(b)) % 3 == 0:
            continue
        for kind in ("jump", "call"):
            name_spot = {"YA": a, "YB": b}

            def at2(sp):
                return [("label", n) for n, s_ in name_spot.items() if s_ == sp]
            for tail in (0, 1):
                tgt = at2("start") + [c.op()] + at2("mid") + [
                    ("if", [(False, [c.cond()], at2("inif") + [c.op(), ("ctrl", "return")] + at2("behind-return"))], None),
                    ("while", False, c.cond(), at2("inloop") + [c.op()]),
                    ("switch", "$SW", [("1", at2("incase") + [c.op(), ("jump", "YE")] + at2("behind-jump") + [("ctrl", "break")]),
                                       ("2", [c.op(), ("ctrl", "break")] + at2("behind-break"))])]
                tgt += ([c.op()] if tail else []) + at2("end") + [("label", "YE")] + ([("ctrl", "hold")] if tail else [])
                src = [c.op(), ("if", [(False, [c.cond()], [(kind, "YA")])], None), c.op(), (kind, "YB")]
                order = [("def 0", src), ("def 1 for actor A", tgt)] if (spots2.index(a) + tail) % 2 == 0 else [("def 0", tgt), ("def 1 for actor A", src)]
                progs.append(print_program(order))
    return progs


def c01_family(thorough: bool) -> list[str]:
    c = Ctr()
    progs: list[str] = []
    singles = list(if_shapes(c, thorough)) + list(switch_shapes(c, thorough)) + list(loop_shapes(c, thorough))
    for s in singles:
        for i, body in enumerate(contexts(c, [s], thorough)):
            if not thorough and i % 2 == 1 and s[0] == "switch":
                continue
            progs.append(wrap(body))
    for s in plain_forms(c):
        progs.append(wrap([s]))
        progs.append(wrap([c.op(), s, c.op(), ("ctrl", "return")]))
    for s in nested_pairs(c, thorough):
        progs.append(wrap([("label", "LS"), s, ("label", "LE")]))
        progs.append(wrap([("label", "LS"), c.op(), s, c.op(), ("label", "LE"), ("ctrl", "hold")]))
    progs += label_graphs(c, thorough)
    # routine kinds and positions
    body = [c.op(), ("if", [(False, [c.cond()], [c.op()])], None), ("ctrl", "return")]
    for hdr in ["def {i}", "def {i} for actor ACTOR_X", "def {i} for object 4", "def {i} for performer P", "def {i} for_actor(OLD)",
                "def {i} for_object(7)", "def {i} for_performer(Q)"]:
        for nr in (1, 2, 3):
            for which in range(nr):
                progs.append(wrap(body, nr, which, hdr))
    progs.append(print_program([("coro C_A", body), ("coro C_B", None), ("coro C_C", [c.op()])]))
    progs.append(print_program([("def 0", body), ("def 1", None), ("def 2 for actor X", None)]))
    progs.append(print_program([("def 0", [c.op()]), ("def 1", [c.op(), ("label", "Z")]), ("def 2", [("jump", "Z")])]))
    seen, out = set(), []
    for p in progs:
        if p not in seen:
            seen.add(p)
            out.append(p)
    return out


# ---- nested loops (C02's corpus): every pair of loop kinds, the inner loop placed directly / in an if / in an else / in a case of the outer
# loop's body, exits of the outer loop before / after the inner loop, inner loop with break_loop / continue / neither
def loop(kind, body, n):
    if kind == "forever": return f"forever {{ {body} }}"
    if kind == "while": return f"while ($L{n} == {n}) {{ {body} }}"
    if kind == "whilenot": return f"while not ($L{n} == {n}) {{ {body} }}"
    return f"for ($I{n} = 0; $I{n} < {n}; $I{n} += 1;) {{ {body} }}"

def loop_nests() -> list[str]:
    out = []
    k = 0
    for outer, inner in itertools.product(["forever", "while", "for", "whilenot"], ["forever", "while", "for"]):
        for place in ("direct", "in-if", "in-else", "in-case"):
            for oexit in ("none", "before", "after", "both"):
                for iexit in ("break", "continue", "plain"):
                    if outer == "forever" and oexit == "none":
                        continue
                    k += 1
                    ib = {"break": f"c{k}(); if ($Y == {k}) {{ break_loop; }} d{k}();", "continue": f"c{k}(); if ($Y == {k}) {{ continue; }} d{k}();"
                          + (f" if ($Y2 == {k}) {{ break_loop; }}" if inner == "forever" else ""), "plain": f"c{k}();" + (f" if ($Y2 == {k}) {{ break_loop; }}" if inner == "forever" else "")}[iexit]
                    il = loop(inner, ib, k + 1000)
                    mid = {"direct": il, "in-if": f"if ($Q == {k}) {{ {il} e{k}(); }}", "in-else": f"if ($Q == {k}) {{ x{k}(); }} else {{ {il} }}",
                           "in-case": f"switch ($S) {{ case 1: {il} break; default: y{k}(); break; }}"}[place]
                    ex = f"if ($Z == {k}) {{ break_loop; }}"
                    body = f"b{k}(); " + (ex + " " if oexit in ("before", "both") else "") + mid + f" g{k}(); " + (ex + " " if oexit in ("after", "both") else "") + f"h{k}();"
                    out.append(f"def 0 {{ a{k}(); {loop(outer, body, k)} f{k}(); end; }}")
    return out



def alias_layouts() -> list[str]:
    """alias (empty) routines before / between / behind routines that contain ifs, switches and loops, for numbered routines with targets and
    for coroutines (the decompiler's label bookkeeping is per routine and keyed by offsets)"""
    bodies = ["a{k}(); if ($V == {k}) {{ b{k}(); }} c{k}(); end;", "switch ($S) {{ case {k}: d{k}(); break; default: e{k}(); }} hold;",
              "while ($W == {k}) {{ f{k}(); if ($V == {k}) {{ continue; }} g{k}(); }} return;", "h{k}(); return;",
              "forever {{ i{k}(); if ($V == {k}) {{ break_loop; }} }} if ($U == {k} || $T == {k}) {{ j{k}(); }} else {{ l{k}(); }} end;"]
    out = []
    k = 0
    for pattern in ("BA", "BAB", "BAAB", "BABAB", "BBA", "BAABA"):
        for shift in range(len(bodies)):
            for style in ("def", "coro"):
                rts, bi = [], shift
                for i, ch in enumerate(pattern):
                    k += 1
                    if ch == "A":
                        body = "alias previous;"
                    else:
                        body = bodies[bi % len(bodies)].format(k=k)
                        bi += 1
                    hdr = f"coro CO_{k}" if style == "coro" else (f"def {i}" if i % 2 == 0 else f"def {i} for actor ACTOR_{k}")
                    rts.append(f"{hdr} {{ {body} }}")
                out.append("\n".join(rts) + "\n")
    return out
