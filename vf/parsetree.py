"""ExplorerScript source text -> node table (DESIGN 1.3), via the repository's ANTLR grammar.

Only *syntax* is taken from the parser: this module walks the parse tree and copies what is
written (kinds, nesting, tokens, positions) into a flat table.  It does not go through any compile
handler and takes no semantic decision - successor, scope, opcode and parameter order live in
spec/ExpsSemantics.tla and spec/ExpsForms.tla.
"""
from __future__ import annotations

from vf import common  # noqa: F401
from vf import litref
from vf.canon import hx

from explorerscript.explorerscript_reader import ExplorerScriptReader
from explorerscript.antlr.ExplorerScriptParser import ExplorerScriptParser as P

NOH = {"f": "", "a": [], "line": -1, "col": -1}


def blank(k: str, ctx) -> dict:
    return {"k": k, "f": "", "a": [], "name": "", "neg": False, "h": dict(NOH), "arms": [], "hasElse": False,
            "els": [], "cases": [], "body": [], "init": 0, "incr": 0, "inner": 0, "ctx": dict(NOH),
            "line": ctx.start.line - 1, "col": ctx.start.column,
            "eline": ctx.stop.line - 1 if ctx.stop else -1, "ecol": ctx.stop.column if ctx.stop else -1}


class Table:
    def __init__(self):
        self.nodes: list[dict] = []
        self.par: list[dict] = []
        self.posmarks: list[dict] = []
        self.root = ("r", 0)

    def new(self, node: dict) -> int:
        self.nodes.append(node)
        self.par.append({"p": 0, "role": "root", "ai": 0, "idx": 0, "rk": self.root[0], "ri": self.root[1]})
        return len(self.nodes)

    def setpar(self, ids: list[int], p: int, role: str, ai: int = 0):
        for i, n in enumerate(ids):
            self.par[n - 1].update({"p": p, "role": role, "ai": ai, "idx": i + 1})


def t(x) -> str:
    return str(x)


def integer_like(ctx) -> str:
    if ctx.INTEGER():
        return litref.int_tok(t(ctx.INTEGER()))
    if ctx.DECIMAL():
        return litref.dec_tok(t(ctx.DECIMAL()))
    if ctx.IDENTIFIER():
        return "c:" + t(ctx.IDENTIFIER())
    return "c:" + t(ctx.VARIABLE())


def string_value(ctx) -> str:
    if ctx.STRING_LITERAL():
        return litref.read_string(t(ctx.STRING_LITERAL()))
    return litref.read_string(t(ctx.MULTILINE_STRING_LITERAL()))


def string_tok(ctx) -> str:
    if ctx.string_value():
        return "s:" + hx(string_value(ctx.string_value()))
    ls = ctx.lang_string()
    d = {}
    for a in ls.lang_string_argument():
        d[t(a.IDENTIFIER())] = string_value(a.string_value())
    return "l:" + ";".join(f"{k}={hx(v)}" for k, v in sorted(d.items()))


def posmark_tok(tb: Table, ctx) -> str:
    name = litref.read_single(t(ctx.STRING_LITERAL()))
    args = ctx.position_marker_arg()
    xs = t(args[0].INTEGER() or args[0].DECIMAL())
    ys = t(args[1].INTEGER() or args[1].DECIMAL())
    xr, xo = litref.pos_arg(xs)
    yr, yo = litref.pos_arg(ys)
    tb.posmarks.append({"line": ctx.start.line - 1, "col": ctx.start.column, "eline": ctx.stop.line - 1,
                        "ecol": ctx.stop.column, "name": name, "xo": xo, "yo": yo, "xr": xr, "yr": yr,
                        "rk": tb.root[0], "ri": tb.root[1]})
    return f"p:{hx(name)},{xo},{yo},{xr},{yr}"


def arglist(tb: Table, ctx) -> list[str]:
    if ctx is None:
        return []
    out = []
    for a in ctx.pos_argument():
        if a.integer_like():
            out.append(integer_like(a.integer_like()))
        elif a.string():
            out.append(string_tok(a.string()))
        else:
            out.append(posmark_tok(tb, a.position_marker()))
    return out


def cond_operator(ctx) -> str:
    return ctx.getText()


def hdr(f: str, a: list[str], ctx) -> dict:
    return {"f": f, "a": a, "line": ctx.start.line - 1, "col": ctx.start.column}


def value_or_int(ctx_valueof, ctx_il):
    if ctx_valueof is not None:
        return True, integer_like(ctx_valueof.integer_like())
    return False, integer_like(ctx_il)


def operation_hdr(tb: Table, ctx, f: str) -> tuple[dict, dict]:
    """returns (header for the op itself, inline ctx header or NOH)"""
    name = t(ctx.IDENTIFIER())
    a = [name] + arglist(tb, ctx.arglist())
    ic = ctx.inline_ctx()
    ch = dict(NOH)
    if ic is not None:
        ch = ctx_hdr(ic.ctx_header())
    return hdr(f, a, ctx), ch


def ctx_hdr(ch) -> dict:
    return hdr("ctx", [t(ch.IDENTIFIER()), integer_like(ch.integer_like())], ch)


def if_header(tb: Table, ctx) -> dict:
    if ctx.if_h_op():
        c = ctx.if_h_op()
        ils = c.integer_like()
        isvar, v = value_or_int(c.value_of(), ils[1] if len(ils) > 1 else None)
        return hdr("c_opvar" if isvar else "c_op", [integer_like(ils[0]), cond_operator(c.conditional_operator()), v], ctx)
    if ctx.if_h_bit():
        c = ctx.if_h_bit()
        return hdr("c_bit", [integer_like(c.integer_like()), litref.int_tok(t(c.INTEGER())), "1" if c.NOT() else "0"], ctx)
    if ctx.if_h_negatable():
        c = ctx.if_h_negatable()
        kw = "debug" if c.DEBUG() else ("edit" if c.EDIT() else "variation")
        return hdr("c_kw", [kw, "1" if c.NOT() else "0"], ctx)
    if ctx.if_h_scn():
        c = ctx.if_h_scn()
        return hdr("c_scn", [integer_like(c.scn_var().integer_like()), cond_operator(c.conditional_operator()),
                             litref.int_tok(t(c.INTEGER(0))), litref.int_tok(t(c.INTEGER(1)))], ctx)
    h, ch = operation_hdr(tb, ctx.operation(), "c_opn")
    h["line"], h["col"] = ctx.start.line - 1, ctx.start.column
    return h


def switch_header(tb: Table, ctx) -> dict:
    if ctx.integer_like():
        return hdr("sw_var", [integer_like(ctx.integer_like())], ctx)
    if ctx.operation():
        h, _ = operation_hdr(tb, ctx.operation(), "sw_op")
        h["line"], h["col"] = ctx.start.line - 1, ctx.start.column
        return h
    if ctx.switch_h_scn():
        c = ctx.switch_h_scn()
        return hdr("sw_scn", [integer_like(c.scn_var().integer_like()), litref.int_tok(t(c.INTEGER()))], ctx)
    if ctx.switch_h_random():
        return hdr("sw_random", [integer_like(ctx.switch_h_random().integer_like())], ctx)
    if ctx.switch_h_dungeon_mode():
        return hdr("sw_dmode", [integer_like(ctx.switch_h_dungeon_mode().integer_like())], ctx)
    return hdr("sw_sector", [], ctx)


def case_header(ctx) -> dict:
    if ctx.integer_like():
        return hdr("cs_val", [integer_like(ctx.integer_like())], ctx)
    if ctx.case_h_menu():
        return hdr("cs_menu", [string_tok(ctx.case_h_menu().string())], ctx)
    if ctx.case_h_menu2():
        return hdr("cs_menu2", [integer_like(ctx.case_h_menu2().integer_like())], ctx)
    c = ctx.case_h_op()
    isvar, v = value_or_int(c.value_of(), c.integer_like())
    return hdr("cs_opvar" if isvar else "cs_op", [cond_operator(c.conditional_operator()), v], ctx)


def assignment(tb: Table, ctx) -> dict:
    if ctx.assignment_regular():
        c = ctx.assignment_regular()
        ils = c.integer_like()
        isvar, v = value_or_int(c.value_of(), ils[1] if len(ils) > 1 else None)
        o = c.assign_operator().getText()
        if c.INTEGER():
            return hdr("as_bitvar" if isvar else "as_bit", [integer_like(ils[0]), litref.int_tok(t(c.INTEGER())), o, v], ctx)
        return hdr("as_regvar" if isvar else "as_reg", [integer_like(ils[0]), o, v], ctx)
    if ctx.assignment_clear():
        return hdr("as_clear", [integer_like(ctx.assignment_clear().integer_like())], ctx)
    if ctx.assignment_initial():
        return hdr("as_init", [integer_like(ctx.assignment_initial().integer_like())], ctx)
    if ctx.assignment_reset():
        c = ctx.assignment_reset()
        if c.DUNGEON_RESULT():
            return hdr("as_reset_dr", [], ctx)
        return hdr("as_reset_scn", [integer_like(c.scn_var().integer_like())], ctx)
    if ctx.assignment_adv_log():
        return hdr("as_advlog", [integer_like(ctx.assignment_adv_log().integer_like())], ctx)
    if ctx.assignment_dungeon_mode():
        ils = ctx.assignment_dungeon_mode().integer_like()
        return hdr("as_dmode", [integer_like(ils[0]), integer_like(ils[1])], ctx)
    c = ctx.assignment_scn()
    return hdr("as_scn", [integer_like(c.integer_like()), litref.int_tok(t(c.INTEGER(0))), litref.int_tok(t(c.INTEGER(1)))], ctx)


def simple_stmt(tb: Table, ctx) -> int:
    if ctx.operation():
        n = blank("op", ctx)
        h, ch = operation_hdr(tb, ctx.operation(), "op")
        n["f"], n["a"], n["ctx"] = "op", h["a"], ch
        return tb.new(n)
    if ctx.label():
        n = blank("label", ctx)
        n["name"] = t(ctx.label().IDENTIFIER())
        return tb.new(n)
    if ctx.cntrl_stmt():
        c = ctx.cntrl_stmt()
        kw = c.getText()
        if kw in ("return", "end", "hold"):
            n = blank("ctrl", ctx)
            n["f"] = kw
        else:
            n = blank(kw, ctx)  # break / continue / break_loop
        return tb.new(n)
    if ctx.jump():
        n = blank("jump", ctx)
        n["name"] = t(ctx.jump().IDENTIFIER())
        return tb.new(n)
    if ctx.call():
        n = blank("call", ctx)
        n["name"] = t(ctx.call().IDENTIFIER())
        return tb.new(n)
    n = blank("op", ctx)
    h = assignment(tb, ctx.assignment())
    n["f"], n["a"] = h["f"], h["a"]
    return tb.new(n)


def block(tb: Table, stmts) -> list[int]:
    return [stmt(tb, s) for s in stmts]


def stmt(tb: Table, ctx) -> int:
    if ctx.simple_stmt():
        return simple_stmt(tb, ctx.simple_stmt())
    if ctx.ctx_block():
        c = ctx.ctx_block()
        n = blank("with", c)
        n["ctx"] = ctx_hdr(c.ctx_header())
        me = tb.new(n)
        inner = simple_stmt(tb, c.simple_stmt())
        n["inner"] = inner
        tb.setpar([inner], me, "inner")
        return me
    if ctx.if_block():
        c = ctx.if_block()
        n = blank("if", c)
        me = tb.new(n)
        body = block(tb, c.stmt())
        tb.setpar(body, me, "arm", 1)
        n["arms"].append({"neg": c.NOT() is not None, "hs": [if_header(tb, h) for h in c.if_header()], "body": body,
                          "line": c.start.line - 1, "col": c.start.column})
        for k, e in enumerate(c.elseif_block()):
            b = block(tb, e.stmt())
            tb.setpar(b, me, "arm", k + 2)
            n["arms"].append({"neg": e.NOT() is not None, "hs": [if_header(tb, h) for h in e.if_header()], "body": b,
                              "line": e.start.line - 1, "col": e.start.column})
        if c.else_block():
            n["hasElse"] = True
            b = block(tb, c.else_block().stmt())
            tb.setpar(b, me, "else")
            n["els"] = b
        return me
    if ctx.switch_block():
        c = ctx.switch_block()
        n = blank("switch", c)
        me = tb.new(n)
        n["h"] = switch_header(tb, c.switch_header())
        k = 0
        for ch in c.getChildren():
            if isinstance(ch, P.Single_case_blockContext):
                k += 1
                if ch.string():
                    n["cases"].append({"isDef": False, "h": case_header(ch.case_header()), "body": [], "isMsg": True,
                                       "s": string_tok(ch.string()), "cline": ch.start.line - 1, "ccol": ch.start.column})
                else:
                    b = block(tb, ch.stmt())
                    tb.setpar(b, me, "case", k)
                    n["cases"].append({"isDef": False, "h": case_header(ch.case_header()), "body": b, "isMsg": False, "s": "",
                                       "cline": ch.start.line - 1, "ccol": ch.start.column})
            elif isinstance(ch, P.DefaultContext):
                k += 1
                if ch.string():
                    n["cases"].append({"isDef": True, "h": hdr("", [], ch), "body": [], "isMsg": True, "s": string_tok(ch.string()),
                                       "cline": ch.start.line - 1, "ccol": ch.start.column})
                else:
                    b = block(tb, ch.stmt())
                    tb.setpar(b, me, "case", k)
                    n["cases"].append({"isDef": True, "h": hdr("", [], ch), "body": b, "isMsg": False, "s": "",
                                       "cline": ch.start.line - 1, "ccol": ch.start.column})
        return me
    if ctx.message_switch_block():
        c = ctx.message_switch_block()
        n = blank("msw", c)
        me = tb.new(n)
        which = "talk" if c.MESSAGE_SWITCH_TALK() else "monologue"
        n["h"] = hdr("msw", [which, integer_like(c.integer_like())], c)
        for ch in c.getChildren():
            if isinstance(ch, P.Single_case_blockContext):
                isMsg = ch.string() is not None
                b = [] if isMsg else block(tb, ch.stmt())
                n["cases"].append({"isDef": False, "h": case_header(ch.case_header()), "body": b, "isMsg": isMsg,
                                   "s": string_tok(ch.string()) if isMsg else "", "cline": ch.start.line - 1, "ccol": ch.start.column})
            elif isinstance(ch, P.DefaultContext):
                isMsg = ch.string() is not None
                b = [] if isMsg else block(tb, ch.stmt())
                n["cases"].append({"isDef": True, "h": hdr("", [], ch), "body": b, "isMsg": isMsg,
                                   "s": string_tok(ch.string()) if isMsg else "", "cline": ch.start.line - 1, "ccol": ch.start.column})
        return me
    if ctx.forever_block():
        c = ctx.forever_block()
        n = blank("forever", c)
        me = tb.new(n)
        n["body"] = block(tb, c.stmt())
        tb.setpar(n["body"], me, "body")
        return me
    if ctx.while_block():
        c = ctx.while_block()
        n = blank("while", c)
        me = tb.new(n)
        n["neg"] = c.NOT() is not None
        n["h"] = if_header(tb, c.if_header())
        n["body"] = block(tb, c.stmt())
        tb.setpar(n["body"], me, "body")
        return me
    if ctx.for_block():
        c = ctx.for_block()
        n = blank("for", c)
        me = tb.new(n)
        ss = c.simple_stmt()
        n["init"] = simple_stmt(tb, ss[0])
        n["h"] = if_header(tb, c.if_header())
        n["incr"] = simple_stmt(tb, ss[1])
        tb.setpar([n["init"]], me, "init")
        tb.setpar([n["incr"]], me, "incr")
        n["body"] = block(tb, c.stmt())
        tb.setpar(n["body"], me, "body")
        return me
    c = ctx.macro_call()
    n = blank("mcall", c)
    n["name"] = t(c.MACRO_CALL())[1:]
    n["a"] = arglist(tb, c.arglist())
    return tb.new(n)


def routine(tb: Table, fd, seq_idx: int) -> dict:
    suite = None
    info = {"kind": "GENERIC", "id": -1, "target": "i:0", "coro": "", "alias": False, "body": [],
            "line": fd.start.line - 1, "col": fd.start.column}
    if fd.simple_def():
        d = fd.simple_def()
        info["id"] = litref.read_int(t(d.INTEGER()))
        suite = d.func_suite()
    elif fd.coro_def():
        d = fd.coro_def()
        info["kind"] = "COROUTINE"
        info["coro"] = t(d.IDENTIFIER())
        suite = d.func_suite()
    else:
        d = fd.for_target_def()
        info["id"] = litref.read_int(t(d.INTEGER()))
        tg = d.for_target_def_target()
        word = t(tg.IDENTIFIER()) if tg.IDENTIFIER() else t(tg.FOR_TARGET())[4:]
        info["kind"] = {"actor": "ACTOR", "object": "OBJECT", "performer": "PERFORMER"}.get(word, "INVALID:" + word)
        info["target"] = integer_like(d.integer_like())
        suite = d.func_suite()
    if suite.func_alias():
        info["alias"] = True
    else:
        info["body"] = block(tb, suite.stmt())
        tb.setpar(info["body"], 0, "root")
    return info


def parse(src: str) -> dict:
    """-> {nodes, par, routines, macros, imports, posmarks}; raises ParseError on syntax errors."""
    tree = ExplorerScriptReader(src).read()
    tb = Table()
    routines, macros, imports = [], [], []
    for imp in tree.import_stmt():
        imports.append(litref.read_single(t(imp.STRING_LITERAL())))
    ri = mi = 0
    for ch in tree.getChildren():
        if isinstance(ch, P.FuncdefContext):
            ri += 1
            tb.root = ("r", ri)
            routines.append(routine(tb, ch, ri))
        elif isinstance(ch, P.MacrodefContext):
            mi += 1
            tb.root = ("m", mi)
            body = block(tb, ch.func_suite().stmt()) if not ch.func_suite().func_alias() else []
            tb.setpar(body, 0, "root")
            macros.append({"name": t(ch.IDENTIFIER()), "params": ["c:" + t(v) for v in ch.VARIABLE()], "body": body,
                           "file": "", "line": ch.start.line - 1, "col": ch.start.column})
    return {"nodes": tb.nodes, "par": tb.par, "routines": routines, "macros": macros, "imports": imports,
            "posmarks": tb.posmarks}
