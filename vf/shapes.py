"""Shape predicates on SSB routine sets (records), used to describe known findings: a finding is identified by
the input shape that triggers it plus the kind of divergence (DESIGN 5)."""
from __future__ import annotations

import re

SWITCH_LIKE = ("ProcessSpecial", "message_Menu", "message_SwitchMenu", "message_SwitchMenu2", "main_EnterAdventure",
               "main_EnterRescueUser", "main_EnterTraining", "main_EnterTraining2")


def is_test(name: str) -> bool:
    return name.startswith("Branch") or (name.startswith("Case") and name not in ("CaseText",))


def tags(rs: list[list[dict]]) -> list[str]:
    t = set()
    pos = {o["off"]: (ri, i) for ri, r in enumerate(rs) for i, o in enumerate(r)}
    for ri, r in enumerate(rs):
        if r and r[0]["op"] == "Jump":
            t.add("startjump")
            if any(o["tgt"] == r[0]["off"] for rr in rs for o in rr):
                t.add("entryjumptarget")     # ... and that entry Jump is itself the target of a jump
        under = None
        for i, o in enumerate(r):
            name = o["op"]
            if name == "Call":
                t.add("call")
            if o["tgt"] != -1 and o["tgt"] in pos and pos[o["tgt"]][0] != ri:
                t.add("xroutine")
            if o["tgt"] == o["off"]:
                t.add("selftarget")
            if is_test(name) and o["tgt"] in pos:
                # a test whose target leads back to the test itself through Jump ops only
                cur, n = o["tgt"], 0
                while cur in pos and n < 50:
                    q = rs[pos[cur][0]][pos[cur][1]]
                    if q["op"] != "Jump":
                        break
                    cur = q["tgt"]
                    n += 1
                if cur == o["off"]:
                    t.add("selftarget")
            if name == "Jump" and i > 0 and o["tgt"] == r[i - 1]["off"] and is_test(r[i - 1]["op"]):
                t.add("spin")
            if name == "BranchValue" and len(o["ps"]) > 1 and o["ps"][1] == "i:2":
                t.add("valeq")
            if name.startswith("Switch") or name in SWITCH_LIKE:
                under = name
            elif name.startswith("Case") and name != "CaseText":
                if name == "CaseScenario" and under != "SwitchScenario":
                    t.add("casescn")
                if name == "CaseValue" and under == "SwitchScenario":
                    t.add("casescn")
                if under is None:
                    t.add("orphancase")
                if o["tgt"] != -1 and o["tgt"] <= o["off"]:
                    t.add("backcase")
            else:
                under = None
            if name.startswith("Branch") and o["tgt"] != -1 and o["tgt"] <= o["off"]:
                t.add("backbranch")
            if is_test(name) and i + 1 < len(r) and r[i + 1]["op"] == "Jump":
                def resolve(off, n=0):
                    while off in pos and n < 50:
                        q = rs[pos[off][0]][pos[off][1]]
                        if q["op"] != "Jump":
                            return off
                        off = q["tgt"]
                        n += 1
                    return off
                if resolve(o["tgt"]) <= o["off"] and resolve(r[i + 1]["tgt"]) <= o["off"]:
                    t.add("twoback")
            if is_test(name) and o["tgt"] in pos:
                # both successors lead backwards, the fall-through one after some plain ops
                k = i + 1
                while k < len(r) and not is_test(r[k]["op"]) and r[k]["op"] not in ("Jump", "Call", "Return", "End", "Hold"):
                    k += 1
                if k < len(r) and r[k]["op"] == "Jump":
                    cur, n = r[k]["tgt"], 0
                    while cur in pos and rs[pos[cur][0]][pos[cur][1]]["op"] == "Jump" and n < 50:
                        cur = rs[pos[cur][0]][pos[cur][1]]["tgt"]
                        n += 1
                    c2, n = o["tgt"], 0
                    while c2 in pos and rs[pos[c2][0]][pos[c2][1]]["op"] == "Jump" and n < 50:
                        c2 = rs[pos[c2][0]][pos[c2][1]]["tgt"]
                        n += 1
                    if cur <= o["off"] and c2 <= o["off"]:
                        t.add("twoback")
            if o["tgt"] in pos and not name.startswith("Case"):
                q = rs[pos[o["tgt"]][0]][pos[o["tgt"]][1]]
                if q["op"].startswith("Case") and q["op"] != "CaseText":
                    t.add("orphancase")   # a case op entered by a jump instead of from its switch header
    return sorted(t)


_REC = re.compile(r"(-?\d+):([A-Za-z_0-9]+)\((.*)\)->(-?\d+)$")


def parse_fmt(inp: list[list[str]]) -> list[list[dict]]:
    rs = []
    for r in inp:
        rr = []
        for s in r:
            m = _REC.match(s)
            rr.append({"off": int(m.group(1)), "op": m.group(2), "ps": m.group(3).split(",") if m.group(3) else [], "tgt": int(m.group(4))})
        rs.append(rr)
    return rs
