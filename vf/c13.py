"""C13  Flat structured programs decompile back to structured, jump-free text.  Spec: spec/Structuring.tla."""
from __future__ import annotations

import json
import os
import random

from vf import common, drive, decomp, gen_exps, gen_flow, parsetree
from vf.pool import pmap


def roundtrip(src: str) -> dict:
    out = {"src": src, "status": "ok", "err": "", "s": None, "t": None, "text": ""}
    comp = drive.compile_text(src)
    if comp["status"] != "ok":
        out["status"], out["err"] = "compile:" + comp["status"], comp["err"]
        return out
    tab = parsetree.parse(src)
    out["s"] = {"nodes": tab["nodes"], "routines": tab["routines"]}
    rs = gen_flow.renumber(comp["ops"])
    gen_flow.sanitise_dmode(rs)
    d = decomp.decompile_case({"routines": rs, "infos": comp["infos"]})
    out["text"] = d["text"]
    if d["status"] != "ok" or d["fallback"] or d["table"] is None:
        out["status"] = "nottext"
        out["err"] = d["status"] + " " + d["err"] + (" fallback" if d["fallback"] else "") + " " + d.get("table_err", "")
        out["t"] = {"nodes": [], "routines": []}
        return out
    out["t"] = {"nodes": d["table"]["nodes"], "routines": d["table"]["routines"]}
    out["dm_changed"] = rs != gen_flow.renumber(comp["ops"])
    return out


DM = {f"i:{i}": f"c:{decomp.DMODE[i]}" for i in range(4)}


def dmode_norm(tab: dict) -> dict:
    """C04's stated tolerance, applied to both node tables: a dungeon-mode number 0..3 and its configured constant"""
    nodes = []
    for nd in tab["nodes"]:
        nd = dict(nd)
        if nd["k"] == "op" and nd["f"] == "as_dmode" and len(nd["a"]) == 2:
            nd["a"] = [nd["a"][0], DM.get(nd["a"][1], nd["a"][1])]
        nodes.append(nd)
    return {"nodes": nodes, "routines": tab["routines"]}


def validate(rep, recs, tag):
    bad = []
    B = 1500
    for k in range(0, len(recs), B):
        path = os.path.join(common.scratch(), f"c13-{tag}-{k}.json")
        with open(path, "w") as fh:
            json.dump([{"s": dmode_norm(r["s"]), "t": dmode_norm(r["t"]), "status": "ok" if r["status"] == "ok" else "nottext"} for r in recs[k:k + B]], fh)
        res = common.run_tlc("Structuring", "Structuring.cfg", {"CASES_FILE": path})
        os.unlink(path)
        rep.add_tlc(res)
        if res["inv_errors"] and not res["viols"]:
            raise common.MachineryError("invariant violation without VIOL line:\n" + res["out"][-3000:])
        for v in res["viols"]:
            bad.append((k + int(v[0]) - 1, common.tla_unquote(v[1]), int(v[2])))
    return bad


def main() -> int:
    rep = common.Report("C13")
    rng = random.Random(common.seed() * 911 + 13)
    thorough = common.tier() == "thorough"
    srcs = gen_exps.flat_family(thorough)
    srcs += [k["witness"] for k in rep.known if isinstance(k.get("witness"), str)]     # the recorded witness of every listed finding
    n_enum = len(srcs)
    for _ in range(6000 if thorough else 800):
        srcs.append(gen_exps.flat_random(rng, rng.choice([3, 5, 8])))
    recs = pmap(roundtrip, srcs, limit=15.0)
    kept = []
    for s, r in zip(srcs, recs):
        if r.get("_error"):
            raise common.MachineryError("harness error: " + r["_error"])
        if r.get("_timeout"):
            continue
        if r["status"].startswith("compile:"):
            raise common.MachineryError("flat program rejected by the compiler: " + r["err"] + "\n" + s)
        kept.append(r)
    for i, kind, n in validate(rep, kept, "main"):
        r = kept[i]
        if kind == "outofdomain":
            raise common.MachineryError("generator produced a program outside the flat family:\n" + r["src"])
        rep.violation("flat-roundtrip:" + kind, {"src": r["src"], "text": r["text"], "err": r["err"], "at_node": n})
    good = [r for r in kept if r["status"] == "ok"][:6]
    muts = []
    for r in good:
        m = json.loads(json.dumps(r))
        ops = [k for k, nd in enumerate(m["t"]["nodes"]) if nd["k"] == "op" and nd["f"] == "op"]
        if ops:
            m["t"]["nodes"][ops[0]]["a"] = ["zz_other"] + m["t"]["nodes"][ops[0]]["a"][1:]
            muts.append(m)
        m2 = json.loads(json.dumps(r))
        jn = dict(m2["t"]["nodes"][0]); jn["k"] = "jump"; jn["name"] = "x"
        m2["t"]["nodes"].append(jn)
        muts.append(m2)
    tmp = common.Report("C13"); tmp.known = []
    got = validate(tmp, muts, "selftest")
    if not muts or len({g[0] for g in got}) != len(muts):
        raise common.MachineryError("C13 self-test: corrupted decompilations accepted")
    rep.extra["selftest_corrupted_rejected"] = len(muts)
    rep.traces = len(kept)
    rep.evaluations = len(srcs)
    rep.nontrivial = len({r["src"] for r in kept if any(nd["k"] in ("if", "switch") for nd in r["s"]["nodes"])})
    rep.rule = (f"{n_enum} enumerated flat programs (every if-chain / switch shape alone, in context, and in ordered pairs) + "
                f"{len(srcs) - n_enum} random flat programs (<=8 items, 1-2 routines); compile -> renumber -> decompile -> TLC scans the text's "
                "node table; non-trivial = distinct program with >=1 if or switch")
    rep.sample({"source": kept[len(kept) // 2]["src"], "decompiled": kept[len(kept) // 2]["text"]})
    rep.assumptions = ["labels may remain in the text (the property forbids jump statements, not labels)"]
    return rep.finish()


if __name__ == "__main__":
    common.main_wrapper(main)
