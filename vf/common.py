"""Shared plumbing of the verification harness: environment, scratch space, TLC runner,
evidence files, known-findings protocol.

Nothing in here takes a verdict; verdicts are taken by TLC evaluating an invariant of a module in
spec/ (see DESIGN.md 1.2).  Exit codes: 0 held / 1 VIOLATION / 2 machinery failure.
"""
from __future__ import annotations

import atexit
import json
import os
import re
import shutil
import subprocess
import sys
import tempfile
import time

VERIF = os.path.dirname(os.path.dirname(os.path.abspath(__file__)))
REPO = os.environ.get("VERIF_REPO", "/repo")
SPEC = os.path.join(VERIF, "spec")
GUARD = "EXPLORERSCRIPT_VERIF"

os.environ.setdefault(GUARD, "1")
os.environ.setdefault("PYTHONHASHSEED", "0")
if REPO not in sys.path:
    sys.path.insert(0, REPO)

PPL = "$PERFORMANCE_PROGRESS_LIST"


def seed() -> int:
    try:
        return int(os.environ.get("VERIF_SEED", "0"))
    except ValueError:
        return 0


def tier(default: str = "quick") -> str:
    t = os.environ.get("VERIF_TIER", default)
    return t if t in ("quick", "thorough") else default


_scratch = None


def scratch() -> str:
    """A fresh directory outside /repo and /verif, removed at exit."""
    global _scratch
    if _scratch is None:
        base = os.environ.get("VERIF_SCRATCH_BASE") or tempfile.gettempdir()
        _scratch = tempfile.mkdtemp(prefix="vf-", dir=base)
        atexit.register(lambda: shutil.rmtree(_scratch, ignore_errors=True))
    return _scratch


class MachineryError(Exception):
    pass


# --------------------------------------------------------------------------------------- TLC

_VIOL = re.compile(r'^<<"VIOL", ')
_STATS = re.compile(r"^(\d+) states generated, (\d+) distinct states found")


def _split_top(s: str) -> list[str]:
    """Split the inside of a TLA+ tuple on top-level commas."""
    out, depth, cur, instr, esc = [], 0, "", False, False
    for ch in s:
        if instr:
            cur += ch
            if esc:
                esc = False
            elif ch == "\\":
                esc = True
            elif ch == '"':
                instr = False
            continue
        if ch == '"':
            instr = True
            cur += ch
        elif ch in "<[({":
            depth += 1
            cur += ch
        elif ch in ">])}":
            depth -= 1
            cur += ch
        elif ch == "," and depth == 0:
            out.append(cur.strip())
            cur = ""
        else:
            cur += ch
    if cur.strip():
        out.append(cur.strip())
    return out


def tla_unquote(s: str) -> str:
    s = s.strip()
    if s.startswith('"') and s.endswith('"'):
        return s[1:-1].replace('\\"', '"').replace("\\\\", "\\")
    return s


def run_tlc(module: str, cfg: str, env: dict[str, str] | None = None, workers: int = 16,
            timeout: int = 3600, cont: bool = True, extra: list[str] | None = None,
            simulate: str | None = None, heap: str = "6g") -> dict:
    """Runs TLC on spec/<module>.tla with spec/<cfg>; returns parsed output.

    result = {states, distinct, viols: [[fields...]], inv_errors: n, prints: [...], out: str, rc}
    A non-parsable run (semantic error, TLC crash, evaluation error) raises MachineryError.
    """
    sc = scratch()
    meta = tempfile.mkdtemp(prefix="tlcmeta-", dir=sc)
    cmd = ["tlc"]
    cmd += ["-workers", str(workers), "-metadir", meta, "-noGenerateSpecTE", "-config", os.path.join(SPEC, cfg)]
    if cont:
        cmd.append("-continue")
    if simulate:
        cmd += ["-simulate", simulate]
    if extra:
        cmd += extra
    cmd.append(os.path.join(SPEC, module + ".tla"))
    e = dict(os.environ)
    e["JAVA_TOOL_OPTIONS"] = (e.get("JAVA_TOOL_OPTIONS", "") + f" -Xmx{heap} -Xss256m").strip()
    if env:
        e.update(env)
    t0 = time.time()
    try:
        p = subprocess.run(cmd, cwd=SPEC, env=e, capture_output=True, text=True, timeout=timeout)
    except subprocess.TimeoutExpired as ex:
        raise MachineryError(f"TLC timed out after {timeout}s on {module}/{cfg}") from ex
    finally:
        shutil.rmtree(meta, ignore_errors=True)
    out = p.stdout + p.stderr
    res = {"states": 0, "distinct": 0, "viols": [], "inv_errors": 0, "prints": [], "out": out,
           "rc": p.returncode, "wall_s": time.time() - t0, "module": module, "cfg": cfg}
    fatal = None
    # TLC wraps a printed tuple wider than 80 columns over several lines (`<< "VIOL",` / one element per line / `>>`): join them
    joined, acc = [], None
    for line in out.splitlines():
        if acc is not None:
            acc += " " + line.strip()
            if line.rstrip().endswith(">>"):
                joined.append(acc.replace('<< "', '<<"', 1).replace(" >>", ">>"))
                acc = None
            continue
        if line.startswith("<< ") and not line.rstrip().endswith(">>"):
            acc = line.rstrip()
            continue
        joined.append(line)
    if acc is not None:
        joined.append(acc)
    for line in joined:
        if _VIOL.match(line):
            inner = line.strip()[2:-2]
            res["viols"].append(_split_top(inner)[1:])
        elif line.startswith("<<") and line.rstrip().endswith(">>"):
            res["prints"].append(_split_top(line.strip()[2:-2]))
        m = _STATS.match(line)
        if m:
            res["states"] = int(m.group(1))
            res["distinct"] = int(m.group(2))
        if line.startswith("Error: Invariant ") and "is violated" in line:
            res["inv_errors"] += 1
        elif line.startswith("Error: Action property") or line.startswith("Error: Temporal"):
            res["inv_errors"] += 1
        elif line.startswith("Error:") and "The behavior up to this point" not in line and \
                "is violated" not in line and fatal is None:
            fatal = line
    if simulate:
        m = re.search(r"The number of states generated: (\d+)", out)
        if m:
            res["states"] = int(m.group(1))
            res["distinct"] = max(res["distinct"], 1)
    if fatal is not None or (res["states"] == 0 and not simulate):
        tail = "\n".join(out.splitlines()[-40:])
        raise MachineryError(f"TLC failed on {module}/{cfg}: {fatal}\n{tail}")
    return res


# --------------------------------------------------------------------------------------- findings

def load_known() -> list[dict]:
    with open(os.path.join(VERIF, "known_findings.json")) as fh:
        return json.load(fh)["findings"]


class Report:
    """Collects the outcome of one check run and writes evidence / prints the verdict lines."""

    def __init__(self, prop: str, level: str = "model_checking"):
        self.prop = prop
        self.level = level
        self.t0 = time.time()
        self.states = 0
        self.transitions = 0
        self.traces = 0
        self.evaluations = 0
        self.nontrivial = 0
        self.rule = ""
        self.samples: list = []
        self.violations: list[dict] = []      # unlisted -> VIOLATION
        self.known_hits: dict[str, dict] = {}  # finding id -> one witness
        self.assumptions: list[str] = []
        self.extra: dict = {}
        self.exhaustive = False
        self.known = [k for k in load_known() if k["property"] == prop and k.get("status") == "known"]

    def add_tlc(self, res: dict) -> None:
        self.states += res["distinct"]
        self.transitions += max(res["states"], res["distinct"])

    def sample(self, s, limit: int = 5) -> None:
        if len(self.samples) < limit:
            self.samples.append(s)

    def violation(self, kind: str, witness: dict) -> None:
        """A property violation on concrete input.  It is matched against the committed known
        findings (property + divergence kind + shape predicate); unmatched ones are reported."""
        for k in self.known:
            if _matches(k, kind, witness):
                self.known_hits.setdefault(k["id"], {"finding": k, "witness": witness, "count": 0})
                self.known_hits[k["id"]]["count"] += 1
                return
        self.violations.append({"kind": kind, "witness": witness})

    def finish(self) -> int:
        wall = time.time() - self.t0
        cov = {
            "states": max(self.states, 0), "transitions": max(self.transitions, 0),
            "traces_validated_against_impl": self.traces,
            "evaluations": self.evaluations, "distinct_nontrivial": self.nontrivial,
            "rule": self.rule, "samples": self.samples or ["(no sample recorded)"],
            "exhaustive": self.exhaustive,
        }
        cov.update(self.extra)
        cov["known_findings_reobserved"] = {k: v["count"] for k, v in self.known_hits.items()}
        ev = {"property_id": self.prop, "tier": tier(), "seed": seed(), "level": self.level,
              "coverage": cov, "assumptions": self.assumptions, "wall_s": round(wall, 2),
              "violations": len(self.violations)}
        # VERIF_EVIDENCE_DIR: used by the mutant tools so that a run against a deliberately broken tree does not replace the evidence
        evdir = os.environ.get("VERIF_EVIDENCE_DIR") or os.path.join(VERIF, "evidence")
        os.makedirs(evdir, exist_ok=True)
        with open(os.path.join(evdir, f"{self.prop}.json"), "w") as fh:
            json.dump(ev, fh, indent=1, sort_keys=True, default=str)
        for k, v in sorted(self.known_hits.items()):
            print(f"KNOWN-FINDING: property={self.prop} {k}: {v['finding']['title']} "
                  f"[{v['count']} case(s) this run]")
        dump = os.environ.get("VERIF_DUMP_ALL")
        if dump:
            with open(dump, "w") as fh:
                for v in self.violations:
                    fh.write(json.dumps(v, default=str) + "\n")
                for k, v in self.known_hits.items():
                    fh.write(json.dumps({"known": k, "count": v["count"], "witness": v["witness"]}, default=str) + "\n")
        if self.violations:
            rdir = os.path.join(VERIF, "replays", self.prop)
            os.makedirs(rdir, exist_ok=True)
            seen = set()
            n = 0
            for i, v in enumerate(self.violations):
                key = v["kind"]
                if key in seen and n >= 8:
                    continue
                seen.add(key)
                path = os.path.join(rdir, f"{tier()}-{seed()}-{n}.json")
                with open(path, "w") as fh:
                    json.dump(v, fh, indent=1, default=str)
                print(f"VIOLATION property={self.prop} replay={path}")
                print(f"  kind={v['kind']} witness={json.dumps(v['witness'], default=str)[:600]}")
                n += 1
                if n >= 20:
                    break
            print(f"{self.prop}: {len(self.violations)} violating case(s) in total")
            return 1
        print(f"{self.prop}: held on everything explored ({self.traces} real-code cases validated by TLC, "
              f"{self.states} states, {wall:.1f}s)")
        return 0


def _matches(k: dict, kind: str, witness: dict) -> bool:
    sig = k.get("signature", {})
    if sig.get("kind") and sig["kind"] != kind:
        return False
    if sig.get("kind_regex") and not re.search(sig["kind_regex"], kind):
        return False
    for fld, want in sig.get("where", {}).items():
        have = witness.get(fld)
        if isinstance(want, dict) and "regex" in want:
            if have is None or not re.search(want["regex"], str(have), re.S):
                return False
        elif isinstance(want, dict) and "contains" in want:
            if not isinstance(have, (list, tuple, set)) or want["contains"] not in have:
                return False
        elif isinstance(want, dict) and "in" in want:
            if have not in want["in"]:
                return False
        elif have != want:
            return False
    return True


def main_wrapper(fn) -> None:
    try:
        rc = fn()
    except MachineryError as ex:
        print(f"MACHINERY-FAILURE: {ex}", file=sys.stderr)
        sys.exit(2)
    except Exception:  # noqa  - a defect of the harness itself is a machinery failure (exit 2), never a verdict
        import traceback
        print("MACHINERY-FAILURE: unexpected error in the harness\n" + traceback.format_exc()[-3000:], file=sys.stderr)
        sys.exit(2)
    sys.exit(rc)
