"""C18  The position-mark listing delimits every Position literal exactly.  Spec: spec/PosMarks.tla."""
from __future__ import annotations

import json
import os
import random

from vf import common, canon, drive
from vf.pool import pmap


class W:
    """writes a source text piece by piece and knows the line/column of everything it writes"""
    def __init__(self, rng: random.Random):
        self.rng = rng
        self.s = ""
        self.marks: list[dict] = []
        self.n = 0

    def pos(self):
        ln = self.s.count("\n")
        col = len(self.s) - (self.s.rfind("\n") + 1)
        return ln, col

    def w(self, t: str):
        self.s += t

    def sep(self, allow_nl: bool = True) -> str:
        r = self.rng
        return r.choice(["", " ", "  ", "\n    " if allow_nl else " ", " /* c */ ", "\t", " // x\n  " if allow_nl else " "] if r.random() < 0.5 else [" "])

    def mark(self, multi: bool):
        r = self.rng
        self.n += 1
        q = r.choice(["'", '"'])
        other = '"' if q == "'" else "'"
        # the name as a value, and as it is spelled inside the chosen quotes (escapes as the language defines them)
        name, spelled = r.choice([(f"pm{self.n}", f"pm{self.n}")] * 4 + [
            (f"p{q}m{self.n}", f"p\\{q}m{self.n}"), (f"p{other}m{self.n}", f"p{other}m{self.n}"), (f"p\nm{self.n}", f"p\\nm{self.n}"),
            (f"p m{self.n}", f"p m{self.n}"), (f"{q}{self.n}", f"\\{q}{self.n}"), (f"pé{self.n}>", f"pé{self.n}>")])
        xt = r.choice(["0", "1", "12", "40", "3.5", "3.50", "3.0", ".5", "0.5", "007" if False else "7", "0x10", "-2", "-2.5", "63"])
        yt = r.choice(["0", "5", "9.5", "20.0", ".0", "0b11", "0o17", "31", "-1"])
        sp = (lambda: self.sep(True)) if multi else (lambda: self.rng.choice(["", " "]))
        ln, col = self.pos()
        self.w("Position")
        self.w(sp()); self.w("<"); self.w(sp()); self.w(q + spelled + q); self.w(sp()); self.w(","); self.w(sp()); self.w(xt); self.w(sp()); self.w(",")
        self.w(sp()); self.w(yt); self.w(sp())
        eln, ecol = self.pos()
        self.w(">")
        self.marks.append({"line": ln, "col": col, "eline": eln, "ecol": ecol, "name": [ord(c) for c in name], "xtext": [ord(c) for c in xt],
                           "ytext": [ord(c) for c in yt], "nm": name})

    def args(self, k_marks: int, multi: bool):
        r = self.rng
        items = ["1", "'s'", "CONST", "{english='e'}"]
        n = r.randint(k_marks, k_marks + 2)
        slots = sorted(r.sample(range(n), k_marks))
        for i in range(n):
            if i:
                self.w(","); self.w(r.choice(["", " "]))
            if i in slots:
                self.mark(multi)
            else:
                self.w(r.choice(items))


def gen_source(rng: random.Random) -> dict:
    w = W(rng)
    nm = rng.choice([0, 1, 1, 2, 3, 4])
    places = [rng.choice(["op", "op", "op2", "macro-body", "macro-arg", "switch-hdr", "if-cond", "nested", "inline-ctx", "with", "for-parts"]) for _ in range(nm)]
    multi = rng.random() < 0.4
    use_macro = any(p in ("macro-body", "macro-arg") for p in places)
    layout = rng.choice(["macro-first", "macro-first", "macro-last", "macro-between"]) if use_macro else "macro-first"
    second_routine = rng.random() < 0.35

    def macro_block():
        w.w("macro mm($a) {"); w.w(rng.choice(["\n    ", " "])); w.w("inmac($a")
        for p in [p for p in places if p == "macro-body"]:
            w.w(", "); w.mark(multi)
        w.w(");\n}\n")

    def second_block():
        w.w("def 1 for actor A {\n    r1("); w.args(1, multi); w.w(");\n    hold;\n}\n")
    # the file may begin with blank lines, indentation or comments: positions count from the first character of the file
    w.w(rng.choice(["", "", "\n", "\n\n\n", "   ", "\t", "  \n \n", "// top\n", "/* a\n b */ ", "\r\n"]))
    if use_macro and layout == "macro-first":
        macro_block()
    w.w("def 0 {\n")
    same_line = rng.random() < 0.3
    nl = (lambda: w.w(" ")) if same_line else (lambda: w.w("\n    "))
    w.w("    first(1);")
    for p in places:
        if p == "macro-body":
            continue
        nl()
        if p == "op":
            w.w("o("); w.args(1, multi); w.w(");")
        elif p == "op2":
            w.w("two("); w.args(2, multi); w.w(");")
        elif p == "macro-arg":
            w.w("~mm("); w.mark(multi); w.w(");")
        elif p == "switch-hdr":
            w.w("switch (ProcessSpecial("); w.args(1, multi); w.w(")) { case 1: c(); break; }")
        elif p == "if-cond":
            w.w("if (BranchExecuteSub("); w.mark(multi); w.w(")) { d(); }")
        elif p == "nested":
            w.w("if ($V == 1) { forever { switch ($S) { case 2: deep("); w.args(1, multi); w.w("); break_loop; } } }")
        elif p == "inline-ctx":
            w.w("ic<actor A>("); w.args(1, multi); w.w(");")
        elif p == "for-parts":
            w.w("for (fi("); w.args(1, multi); w.w("); BranchExecuteSub("); w.mark(multi); w.w("); fe("); w.args(1, multi); w.w(");) { fb("); w.args(1, multi); w.w("); }")
        elif p == "with":
            w.w("with (object B) { wi("); w.args(1, multi); w.w("); }")
    if use_macro and "macro-arg" not in places:
        nl(); w.w("~mm(0);")
    w.w("\n    return;\n}\n")
    if use_macro and layout == "macro-between":
        macro_block()
    if second_routine:
        second_block()
    if use_macro and layout == "macro-last":
        macro_block()
    return {"src": w.s, "expected": w.marks}


def marks_of(comp: dict) -> dict:
    found = {}
    for ri, r in enumerate(comp["ops"]):
        for oi, o in enumerate(r):
            for pi, p in enumerate(o["ps"]):
                if p.startswith("p:"):
                    nm = canon.unhx(p[2:].split(",")[0])
                    found.setdefault(nm, []).append((ri, oi, pi, p))
    return found


def flat_params(comp: dict) -> list:
    return [(ri, oi, pi, p) for ri, r in enumerate(comp["ops"]) for oi, o in enumerate(r) for pi, p in enumerate([o["op"]] + o["ps"] + [str(o["tgt"])])]


def run_case(case: dict) -> dict:
    from explorerscript.explorerscript_reader import ExplorerScriptReader
    from explorerscript.ssb_converting.compiler.compiler_visitor.position_mark_visitor import PositionMarkVisitor
    from explorerscript.ssb_converting.ssb_data_types import SsbOpParamPositionMarker
    src = case["src"]
    rec = {"src": src, "status": "ok", "err": "", "listing": [], "expected": [], "edits": []}
    comp = drive.compile_text(src)
    if comp["status"] != "ok":
        return {"skip": "compile " + comp["status"] + ": " + comp["err"], "src": src}
    found = marks_of(comp)
    try:
        lst = PositionMarkVisitor().visit(ExplorerScriptReader(src).read())
    except Exception as ex:
        rec["status"], rec["err"] = type(ex).__name__, str(ex)[:200]
        lst = []
    rec["listing"] = [{"line": m.line_number, "col": m.column_number, "eline": m.end_line_number, "ecol": m.end_column_number,
                       "name": [ord(c) for c in m.name], "xo": m.x_offset, "yo": m.y_offset, "xr": m.x_relative, "yr": m.y_relative} for m in lst]
    for e in case["expected"]:
        e = dict(e)
        occ = found.get(e["nm"], [])
        e["hasCompiled"] = len(occ) >= 1
        if occ:
            _, xo, yo, xr, yr = occ[0][3][2:].split(",")
            e["compiled"] = {"name": e["name"], "xo": int(xo), "yo": int(yo), "xr": int(xr), "yr": int(yr)}
        else:
            e["compiled"] = {"name": e["name"], "xo": 0, "yo": 0, "xr": 0, "yr": 0}
        rec["expected"].append(e)
    # edits: replace exactly the span the LISTING reports (end inclusive) by the printed form of a changed mark
    lines = src.split("\n")
    offs = [0]
    for ln in lines:
        offs.append(offs[-1] + len(ln) + 1)
    base = flat_params(comp)
    for k, m in enumerate(lst):
        occ = found.get(m.name, [])
        if not occ:
            continue
        new = SsbOpParamPositionMarker(f"edited{k}", 2 if m.x_offset == 0 else 0, m.y_offset, m.x_relative + 1, m.y_relative)
        a = offs[m.line_number] + m.column_number
        b = offs[m.end_line_number] + m.end_column_number + 1
        edited = src[:a] + str(new) + src[b:]
        c2 = drive.compile_text(edited)
        ed = {"status": c2["status"], "oldTok": occ[0][3], "newTok": canon.tok(new), "occurrences": len(occ), "diffs": [], "k": k}
        if c2["status"] == "ok":
            p2 = flat_params(c2)
            if len(p2) != len(base):
                ed["status"] = "shape-changed"
            else:
                ed["diffs"] = [{"old": x[3], "new": y[3]} for x, y in zip(base, p2) if x[3] != y[3]]
        rec["edits"].append(ed)
    return rec


def validate(rep, recs, tag):
    out = []
    B = 3000      # one TLC run per 3000 cases: a single document of tens of thousands of cases makes TLC spend its time collecting garbage
    for k0 in range(0, len(recs), B):
        path = os.path.join(common.scratch(), f"c18-{tag}-{k0}.json")
        with open(path, "w") as fh:
            json.dump([{"status": r["status"], "listing": r["listing"], "expected": [{k: v for k, v in e.items() if k != "nm"} for e in r["expected"]],
                        "edits": [{k: v for k, v in e.items() if k != "k"} for e in r["edits"]]} for r in recs[k0:k0 + B]], fh)
        res = common.run_tlc("PosMarks", "PosMarks.cfg", {"CASES_FILE": path})
        os.unlink(path)
        rep.add_tlc(res)
        if res["inv_errors"] and not res["viols"]:
            raise common.MachineryError("invariant violation without VIOL line:\n" + res["out"][-3000:])
        for v in res["viols"]:
            out.append((k0 + int(v[0]) - 1, common.tla_unquote(v[1]), int(v[2])))
    return out


def main() -> int:
    rep = common.Report("C18")
    rng = random.Random(common.seed() * 541 + 18)
    thorough = common.tier() == "thorough"
    cases = [gen_source(rng) for _ in range(1500 if not thorough else 60000)]
    recs, skipped = [], {}
    for r in pmap(run_case, cases, chunk=16):
        if r.get("_error") or r.get("_timeout"):
            raise common.MachineryError("harness failure: " + str(r)[:400])
        if r.get("skip"):
            skipped[r["skip"][:60]] = skipped.get(r["skip"][:60], 0) + 1
            continue
        recs.append(r)
    if len(recs) < len(cases) * 0.8:
        raise common.MachineryError("too many generated sources rejected by the compiler: " + json.dumps(skipped))
    for i, kind, k in validate(rep, recs, "main"):
        r = recs[i]
        rep.violation("position-marks:" + kind, {"src": r["src"], "index": k, "listing": r["listing"], "expected": [{a: b for a, b in e.items() if a in ("line", "col", "eline", "ecol", "nm")} for e in r["expected"]],
                                                 "edits": r["edits"][:3], "err": r["err"]})
    good = [r for r in recs if len(r["listing"]) >= 2 and r["edits"]][:3]
    muts = []
    for r in good:
        m = json.loads(json.dumps(r)); m["listing"][0]["ecol"] += 1; muts.append(m)
        m = json.loads(json.dumps(r)); m["listing"] = m["listing"][1:]; muts.append(m)
        m = json.loads(json.dumps(r)); m["edits"][0]["diffs"].append({"old": "i:1", "new": "i:2"}); muts.append(m)
        m = json.loads(json.dumps(r)); m["listing"][1]["xo"] = 2 - m["listing"][1]["xo"]; muts.append(m)
    tmp = common.Report("C18"); tmp.known = []
    got = validate(tmp, muts, "selftest")
    if not muts or len({g[0] for g in got}) != len(muts):
        raise common.MachineryError("C18 self-test: corrupted listings accepted")
    rep.extra["selftest_corrupted_rejected"] = len(muts)
    rep.extra["skipped_rejected_sources"] = skipped
    rep.traces = len(recs)
    rep.evaluations = len(cases)
    rep.nontrivial = len({r["src"] for r in recs if len(r["listing"]) >= 2})
    rep.rule = ("generated sources with 0-4 Position literals in operation arguments, macro bodies, macro-call arguments, operation-as-switch-header and "
                "operation-as-condition arguments, nested blocks, inline contexts and with-blocks; several per line, literals spread over lines with comments, "
                "both quote styles, every number spelling; the generator records where it wrote `Position` and `>`; every listed literal is edited in place and "
                "recompiled; non-trivial = distinct source with >=2 literals")
    rep.sample({"src": recs[1]["src"], "listing": recs[1]["listing"][:2]})
    rep.assumptions = ["a literal is matched with the compiled parameter through its unique name; literals in macros that are never called have no compiled parameter"]
    return rep.finish()


if __name__ == "__main__":
    common.main_wrapper(main)
