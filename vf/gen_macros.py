"""Programs with macros and imports (C05, also feeding C03/C08): source trees materialised in a
temp directory and compiled with the real compiler; node tables of all files merged into one
program table for the product specification."""
from __future__ import annotations

import itertools
import os
import random
import shutil
import tempfile

from vf import common, drive, parsetree
from vf.gen_exps import G, Printer, print_program


# ---------------------------------------------------------------------------------- trees

def macro_body(rng: random.Random, name: str, params: list[str], callees: list[tuple[str, int]], rich: bool) -> list:
    g = G(rng, max_depth=2 if rich else 0, allow_macros=callees, labels=rich)
    g.k = rng.randrange(1000, 9000) * 10
    body = [("op", f"mk_{name}", list(params), None)]
    for cn, cnp in callees:
        for _ in range(rng.choice([1, 1, 2]) if rich else 1):
            body.append(("mcall", cn, [g.arg(params) for _ in range(cnp)]))
            if rich and rng.random() < 0.3:
                body.append(g.stmt(0, False, False, params))
    if rich:
        c = rng.randrange(6)
        if c == 0:
            body.insert(1, ("if", [(rng.random() < 0.5, [g.cond(params)], [("ctrl", "return")])], None))
        elif c == 1:
            body = [("label", "top")] + body + [("if", [(False, [g.cond(params)], [("jump", "top")])], None)]
        elif c == 2:
            body.append(("if", [(False, [g.cond(params)], [g.op(params), ("ctrl", "return")])], [g.op(params)]))
        elif c == 3:
            body += g.block(0, False, False, params, 1, 2, may_end=False)
    g.finish_jumps()
    body.append(("op", f"end_{name}", [], None))
    if rich and rng.random() < 0.15:
        body.append(("ctrl", "return"))
    return body


def pnames(rng: random.Random, i: int, n: int, shared: bool) -> list[str]:
    """parameter names: unique per macro, or drawn (in random order) from one small pool shared by all macros, so that
    an argument can be spelled like another variable of the called macro"""
    if not shared:
        return [f"$p{i}_{k}" for k in range(n)]
    pool = ["$a", "$b", "$c"]
    rng.shuffle(pool)
    return pool[:n]


def dag_program(n: int, edges: set[tuple[int, int]], order: tuple[int, ...], rng: random.Random | None = None,
                rich: bool = False, nparams: list[int] | None = None, shared_names: bool = False) -> dict:
    """macros M0..Mn-1; edge (i, j): Mi calls Mj (i < j, hence acyclic); written in the given order."""
    rng = rng or random.Random(0)
    nparams = nparams or [0] * n
    macs = []
    for i in order:
        params = pnames(rng, i, nparams[i], shared_names)
        callees = [(f"M{j}", nparams[j]) for (a, j) in sorted(edges) if a == i]
        macs.append((f"M{i}", params, macro_body(rng, f"M{i}", params, callees, rich)))
    g = G(rng, 1)
    body = []
    for i in range(n):
        body.append(("mcall", f"M{i}", [g.arg() for _ in range(nparams[i])]))
    body.append(("ctrl", "return"))
    text = print_program([("def 0", body)], macs)
    return {"files": {"main.exps": text}, "main": "main.exps", "lookup": [], "meta": {"n": n, "edges": sorted(edges), "order": list(order)}}


def all_dags(n: int):
    pairs = [(i, j) for i in range(n) for j in range(i + 1, n)]
    for k in range(len(pairs) + 1):
        for es in itertools.combinations(pairs, k):
            yield set(es)


def order_family(max_n: int, sample: int | None, rng: random.Random) -> list[dict]:
    out = []
    for n in range(1, max_n + 1):
        for es in all_dags(n):
            for order in itertools.permutations(range(n)):
                out.append((n, es, order))
    if sample is not None and len(out) > sample:
        small = [x for x in out if x[0] <= 3]
        big = [x for x in out if x[0] > 3]
        out = small + rng.sample(big, sample - len(small))
    return [dag_program(n, es, order) for n, es, order in out]


def multi_file(rng: random.Random, rich: bool = True) -> dict:
    """macros spread over main + up to 2 imported files (chain or flat imports, sub-directories)"""
    n = rng.randint(2, 5)
    nparams = [rng.choice([0, 1, 1, 2, 3]) for _ in range(n)]
    shared = rng.random() < 0.5
    mode = rng.choice(["chain", "flat", "single"])
    nfiles = 1 if mode == "single" else rng.choice([2, 3])
    fileof = sorted(rng.randrange(nfiles) for _ in range(n))
    edges = set()
    for i in range(n):
        for j in range(i + 1, n):
            ok = (mode != "flat") or fileof[i] == 0 or fileof[i] == fileof[j]
            if mode == "flat" and fileof[i] != 0 and fileof[i] != fileof[j]:
                ok = False
            if ok and rng.random() < 0.45:
                edges.add((i, j))
    paths = ["main.exps", rng.choice(["lib1.exps", "sub/lib1.exps"]), rng.choice(["lib2.exps", "sub/deep/lib2.exps", "other/lib2.exps"])]
    files = {}
    order_in_file = {f: [i for i in range(n) if fileof[i] == f] for f in range(nfiles)}
    for f in order_in_file:
        rng.shuffle(order_in_file[f])

    def rel(frm: str, to: str) -> str:
        r = os.path.relpath(to, os.path.dirname(frm) or ".")
        return r if r.startswith(".") else "./" + r

    for f in range(nfiles):
        macs = []
        for i in order_in_file[f]:
            params = pnames(rng, i, nparams[i], shared)
            callees = [(f"M{j}", nparams[j]) for (a, j) in sorted(edges) if a == i]
            macs.append((f"M{i}", params, macro_body(rng, f"M{i}", params, callees, rich)))
        imports = []
        if mode == "chain" and f + 1 < nfiles:
            imports = [rel(paths[f], paths[f + 1])]
        if mode == "flat" and f == 0:
            imports = [rel(paths[0], paths[k]) for k in range(1, nfiles)]
        routines = []
        if f == 0:
            g = G(rng, 2, allow_macros=[(f"M{i}", nparams[i]) for i in range(n)])
            for r in range(rng.choice([1, 1, 2])):
                body = g.block(0, False, False, None, 1, 3, may_end=False)
                body.append(("mcall", f"M{rng.randrange(n)}", None))
                body[-1] = ("mcall", body[-1][1], [g.arg() for _ in range(nparams[int(body[-1][1][1:])])])
                if rng.random() < 0.6:
                    body.append(("ctrl", rng.choice(["return", "end", "hold"])))
                routines.append((f"def {r}", body))
            g.finish_jumps()
        files[paths[f]] = print_program(routines, macs, imports)
    return {"files": files, "main": "main.exps", "lookup": [], "meta": {"mode": mode, "n": n, "edges": sorted(edges), "fileof": fileof}}


def import_graphs() -> list[dict]:
    """fixed import DAGs over files, each file defining one macro that calls the macros of the files it imports: diamonds, a shared file that has
    imports of its own reached along two routes, a chain with a short cut, the same file listed twice, sub-directories"""
    shapes = {
        "diamond": {"main": ["a", "b"], "a": ["x"], "b": ["x"], "x": []},
        "shared-with-imports": {"main": ["a", "b"], "b": ["a"], "a": ["x"], "x": []},
        "chain-with-shortcut": {"main": ["a", "c"], "a": ["b"], "b": ["c"], "c": []},
        "wide": {"main": ["a", "b", "c"], "a": ["c"], "b": ["c", "a"], "c": []},
        "deep-diamond": {"main": ["a", "b"], "a": ["m"], "b": ["m"], "m": ["x", "y"], "x": ["z"], "y": ["z"], "z": []},
        "listed-twice": {"main": ["a", "a"], "a": []},
    }
    dirs = [{}, {"a": "lib/", "b": "lib/", "x": "lib/deep/", "c": "other/", "m": "lib/", "y": "lib/deep/", "z": ""}]
    out = []
    for name, g in shapes.items():
        for dmap in dirs:
            path = {f: ("main.exps" if f == "main" else dmap.get(f, "") + f + ".exps") for f in g}
            files = {}
            for f, imps in g.items():
                rel = lambda frm, to: (lambda r: r if r.startswith(".") else "./" + r)(os.path.relpath(path[to], os.path.dirname(path[frm]) or "."))
                text = "".join(f'import "{rel(f, t)}";\n' for t in imps)
                if f == "main":
                    calls = " ".join(f"~m_{t}({k + 1});" for k, t in enumerate(sorted(set(g) - {"main"})))
                    text += f"def 0 {{ start(); {calls} end; }}\n"
                else:
                    inner = " ".join(f"~m_{t}($p);" for t in sorted(set(imps)))
                    text += f"macro m_{f}($p) {{ in_{f}($p); if ($p == 1) {{ return; }} {inner} out_{f}(); }}\n"
                files[path[f]] = text
            out.append({"files": files, "main": "main.exps", "lookup": [], "meta": {"mode": "import-graph", "shape": name}})
    return out


def family(rng: random.Random, thorough: bool) -> list[dict]:
    out = order_family(4 if not thorough else 5, 700 if not thorough else 8000, rng)
    out += import_graphs()
    for _ in range(400 if not thorough else 4000):
        out.append(multi_file(rng))
    for _ in range(200 if not thorough else 2000):
        n = rng.randint(1, 4)
        es = {e for e in [(i, j) for i in range(n) for j in range(i + 1, n)] if rng.random() < 0.5}
        order = list(range(n))
        rng.shuffle(order)
        out.append(dag_program(n, es, tuple(order), rng, rich=True, nparams=[rng.choice([0, 1, 2, 3]) for _ in range(n)], shared_names=rng.random() < 0.6))
    return out


# ---------------------------------------------------------------------------------- driving

def materialise(tree: dict) -> str:
    base = os.environ.get("VERIF_SCRATCH_BASE") or tempfile.gettempdir()
    d = tempfile.mkdtemp(prefix="vf-tree-", dir=base)
    for rel, text in tree["files"].items():
        p = os.path.join(d, rel)
        os.makedirs(os.path.dirname(p), exist_ok=True)
        with open(p, "w", encoding="utf-8") as fh:
            fh.write(text)
    return d


def merged_table(tree: dict, root: str) -> dict:
    """Node tables of all files of the tree merged into one program: routines of the main file, macros of
    every file (each tagged with the path relative to the main file's directory)."""
    main = tree["main"]
    tabs = {}
    for rel, text in tree["files"].items():
        tabs[rel] = parsetree.parse(text)
    nodes, par, macros, posmarks = [], [], [], []
    routines = []
    order = [main] + [r for r in tree["files"] if r != main]
    for rel in order:
        t = tabs[rel]
        off = len(nodes)
        moff = len(macros)

        def sh(ids):
            return [i + off for i in ids]
        for n in t["nodes"]:
            n = dict(n)
            n["body"] = sh(n["body"])
            n["els"] = sh(n["els"])
            n["arms"] = [dict(a, body=sh(a["body"])) for a in n["arms"]]
            n["cases"] = [dict(c, body=sh(c["body"])) for c in n["cases"]]
            for fld in ("init", "incr", "inner"):
                if n[fld]:
                    n[fld] += off
            nodes.append(n)
        for p in t["par"]:
            p = dict(p)
            if p["p"]:
                p["p"] += off
            if p["rk"] == "m":
                p["ri"] += moff
            par.append(p)
        for m in t["macros"]:
            m = dict(m, body=sh(m["body"]))
            m["file"] = os.path.relpath(rel, os.path.dirname(main) or ".") if rel != main else ""
            macros.append(m)
        if rel == main:
            for r in t["routines"]:
                routines.append(dict(r, body=sh(r["body"])))
        for pm in t["posmarks"]:
            pm = dict(pm)
            if pm["rk"] == "m":
                pm["ri"] += moff
            pm["file"] = "" if rel == main else rel
            posmarks.append(pm)
    tab = {"nodes": nodes, "par": par, "routines": routines, "macros": macros, "posmarks": posmarks}
    drive.attach_rix(tab)
    return tab


def compile_tree(tree: dict) -> dict:
    d = materialise(tree)
    try:
        main = os.path.join(d, tree["main"])
        with open(main, encoding="utf-8") as fh:
            src = fh.read()
        comp = drive.compile_text(src, main, [lp if os.path.isabs(lp) or tree.get("lookup_relative") else os.path.join(d, lp) for lp in tree.get("lookup", [])])
        case = dict(comp)
        case["included"] = []
        if comp["status"] == "ok" and comp["sm"]:
            from explorerscript.source_map import SourceMap
            from explorerscript.included_usage_map import IncludedUsageMap
            inc = IncludedUsageMap(SourceMap.deserialize(comp["sm"]), main)
            case["included"] = sorted(os.path.relpath(x, os.path.dirname(main)) for x in inc.included_files)
        case["src"] = "\n".join(f"// ---- {rel}\n{text}" for rel, text in tree["files"].items())
        case["meta"] = tree.get("meta", {})
        if comp["status"] == "ok":
            try:
                tab = merged_table(tree, d)
            except Exception as ex:
                case["status"] = "harness:" + type(ex).__name__
                case["err"] = str(ex)[:300]
                return case
            case.update({k: tab[k] for k in ("nodes", "par", "routines", "macros", "posmarks")})
        return case
    finally:
        shutil.rmtree(d, ignore_errors=True)


# ---------------------------------------------------------------------------------- import layouts (Imports.tla)

L1_DIRS = ["proj/src", "proj", "proj/src/sub", "lk1", "lk2", "lk1/sub", "lk2/sub", "proj/src/lkrel", "abs"]
L1_IMPORTS = [("rel", "./lib.exps"), ("rel", "./sub/lib.exps"), ("rel", "../lib.exps"), ("rel", "../../lk1/lib.exps"),
              ("rel", "./sub/../lib.exps"), ("abs", "abs/lib.exps"), ("abs", "lk2/sub/lib.exps"), ("lookup", "lib.exps"),
              ("lookup", "sub/lib.exps")]
L2_IMPORTS = [("rel", "./inner.exps"), ("rel", "../inner.exps"), ("lookup", "inner.exps"), ("abs", "abs/inner.exps")]
LOOKUPS = [(True, "lk1"), (True, "lk2"), (False, "lkrel"), (False, "../../lk2"), (True, "nonexistent")]


def layout_case(rng: random.Random) -> dict:
    chain = [rng.choice(L1_IMPORTS)]
    if rng.random() < 0.4:
        chain.append(rng.choice(L2_IMPORTS))
    lookups = rng.sample(LOOKUPS, rng.randint(0, 3))
    l1 = [d for d in L1_DIRS if rng.random() < 0.5]
    l2 = [d for d in L1_DIRS if rng.random() < 0.5] if len(chain) > 1 else []
    return {"layout": True, "chain": chain, "lookups": lookups, "l1": l1, "l2": l2}


def layout_all() -> list[dict]:
    """exhaustive over import string x single/double candidate placement x lookup list prefix"""
    out = []
    lks = [[], [LOOKUPS[0]], [LOOKUPS[1], LOOKUPS[0]], [LOOKUPS[2], LOOKUPS[1]], [LOOKUPS[4], LOOKUPS[3], LOOKUPS[0]]]
    for imp in L1_IMPORTS:
        for lk in lks:
            if imp[0] != "lookup" and lk:
                continue
            for a, b in itertools.combinations_with_replacement(L1_DIRS, 2):
                out.append({"layout": True, "chain": [imp], "lookups": lk, "l1": sorted({a, b}), "l2": []})
    return out


def _segs(p: str) -> list[str]:
    return [s for s in p.split("/") if s != ""]


def run_layout(case: dict) -> dict:
    base = os.environ.get("VERIF_SCRATCH_BASE") or tempfile.gettempdir()
    d = os.path.realpath(tempfile.mkdtemp(prefix="vf-lay-", dir=base))
    try:
        def imp_string(kind, s):
            return (d + "/" + s) if kind == "abs" else s
        files = []
        for i, dr in enumerate(case["l1"]):
            p = os.path.join(d, dr, "lib.exps")
            os.makedirs(os.path.dirname(p), exist_ok=True)
            text = ""
            if len(case["chain"]) > 1:
                text += f'import "{imp_string(*case["chain"][1])}";\n'
            text += f"macro probe1() {{ in1_{i}(); }}\n"
            with open(p, "w") as fh:
                fh.write(text)
            files.append(_segs(dr) + ["lib.exps"])
        for i, dr in enumerate(case["l2"]):
            p = os.path.join(d, dr, "inner.exps")
            os.makedirs(os.path.dirname(p), exist_ok=True)
            with open(p, "w") as fh:
                fh.write(f"macro probe2() {{ in2_{i}(); }}\n")
            files.append(_segs(dr) + ["inner.exps"])
        main = os.path.join(d, "proj/src/main.exps")
        os.makedirs(os.path.dirname(main), exist_ok=True)
        call2 = "~probe2(); " if len(case["chain"]) > 1 else ""
        src = f'import "{imp_string(*case["chain"][0])}";\ndef 0 {{ ~probe1(); {call2}return; }}\n'
        with open(main, "w") as fh:
            fh.write(src)
        files.append(["proj", "src", "main.exps"])
        lookup = [(os.path.join(d, p) if ab else p) for ab, p in case["lookups"]]
        comp = drive.compile_text(src, main, lookup)
        chosen = ["<none>"]
        if comp["status"] == "ok":
            names = [o["op"] for r in comp["ops"] for o in r]
            want = "in2_" if len(case["chain"]) > 1 else "in1_"
            hit = [n for n in names if n.startswith(want)]
            if len(hit) == 1:
                idx = int(hit[0][4:])
                dr = (case["l2"] if len(case["chain"]) > 1 else case["l1"])[idx]
                chosen = _segs(dr) + ["inner.exps" if len(case["chain"]) > 1 else "lib.exps"]
        rec = {"files": files, "main": ["proj", "src", "main.exps"],
               "chain": [{"kind": k, "segs": _segs(s)} for k, s in case["chain"]],
               "lookups": [{"abs": ab, "segs": _segs(p)} for ab, p in case["lookups"]],
               "status": comp["status"], "chosen": chosen, "err": comp["err"], "case": case}
        return rec
    finally:
        shutil.rmtree(d, ignore_errors=True)
