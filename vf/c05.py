"""C05  A macro call means its body inlined, in any definition order and file layout.
Specs: ExpsSemantics/CompileEquiv (inlining semantics), MacroOrder.tla (order), Imports.tla (layout)."""
from __future__ import annotations

import json
import os
import random

from vf import common, drive, gen_macros
from vf.c01 import product_check, corrupt
from vf.pool import pmap


def run_cases(rep, module, cfg, cases, tag):
    path = os.path.join(common.scratch(), f"c05-{tag}.json")
    with open(path, "w") as fh:
        json.dump(cases, fh)
    res = common.run_tlc(module, cfg, {"CASES_FILE": path})
    os.unlink(path)
    rep.add_tlc(res)
    if res["inv_errors"] and not res["viols"]:
        raise common.MachineryError("invariant violation without VIOL line:\n" + res["out"][-3000:])
    return res


def main() -> int:
    rep = common.Report("C05")
    rng = random.Random(common.seed() * 131 + 5)
    thorough = common.tier() == "thorough"

    # design-level: the resolver design over all DAGs (N = 4 quick, 5 thorough)
    res = common.run_tlc("MacroOrder", "MacroOrder_design5.cfg" if thorough else "MacroOrder_design.cfg")
    rep.add_tlc(res)
    if res["inv_errors"]:
        rep.violation("macro-order-design", {"tlc": res["out"][-1500:]})
    rep.extra["design_states"] = res["distinct"]

    # semantics + order on real compile results
    trees = gen_macros.family(rng, thorough)
    cases = pmap(gen_macros.compile_tree, trees, chunk=4)
    ok, order_cases, order_src = [], [], []
    rejected = {}
    for t, c in zip(trees, cases):
        if c.get("_timeout") or c.get("_error"):
            raise common.MachineryError("harness failure on macro tree: " + str(c)[:400])
        if c["status"].startswith("harness"):
            raise common.MachineryError(f"node-table merge failed: {c['err']}\n{c['src']}")
        meta = t.get("meta", {})
        n = meta.get("n", 0)
        names = [f"M{i}" for i in range(n)]
        calls = [[f"M{a}", f"M{b}"] for a, b in meta.get("edges", [])]
        # every tree in this family is acyclic and well-formed by construction: it must compile
        order_cases.append({"names": names if c["status"] == "ok" else names, "calls": calls,
                            "mro": c.get("mro", []), "status": c["status"]})
        order_src.append(c)
        if c["status"] == "ok":
            ok.append(c)
        else:
            rejected[c["status"] + ": " + c["err"][:60]] = rejected.get(c["status"] + ": " + c["err"][:60], 0) + 1
    r2 = run_cases(rep, "MacroOrder", "MacroOrder_cases.cfg", order_cases, "order")
    for v in r2["viols"]:
        cid = int(v[0]) - 1
        rep.violation("macro-order:" + common.tla_unquote(v[1]),
                      {"src": order_src[cid]["src"], "err": order_src[cid]["err"], "mro": order_src[cid].get("mro"),
                       "meta": order_src[cid].get("meta")})
    bad = product_check(rep, ok, "macros", prop="C05")
    badset = {i for i, _ in bad}

    # layout
    lays = gen_macros.layout_all() if thorough else gen_macros.layout_all()[::3]
    for _ in range(3000 if thorough else 500):
        lays.append(gen_macros.layout_case(rng))
    lrecs = pmap(gen_macros.run_layout, lays, chunk=8)
    for r in lrecs:
        if r.get("_timeout") or r.get("_error"):
            raise common.MachineryError("harness failure on layout case: " + str(r)[:400])
    r3 = run_cases(rep, "Imports", "Imports.cfg", [{k: r[k] for k in ("files", "main", "chain", "lookups", "status", "chosen")} for r in lrecs], "layout")
    for v in r3["viols"]:
        cid = int(v[0]) - 1
        rep.violation("import-resolution", {"case": lrecs[cid]["case"], "status": lrecs[cid]["status"], "chosen": lrecs[cid]["chosen"],
                                            "err": lrecs[cid]["err"]})

    # binding self-tests
    muts = [m for m in (corrupt(c) for i, c in enumerate(ok) if i not in badset) if m is not None][:8]
    tmp = common.Report("C05"); tmp.known = []
    got = product_check(tmp, muts, "selftest", prop="C05")
    if not muts or len({i for i, _ in got}) != len(muts):
        raise common.MachineryError("C05 self-test (product): corrupted compile results accepted")
    om = [dict(c, mro=list(reversed(c["mro"]))) for c in order_cases if c["status"] == "ok" and c["calls"]][:5]
    got2 = run_cases(tmp, "MacroOrder", "MacroOrder_cases.cfg", om, "order-selftest")
    if len(got2["viols"]) != len(om) or not om:
        raise common.MachineryError("C05 self-test (order): reversed resolution orders accepted")
    lm = [dict({k: r[k] for k in ("files", "main", "chain", "lookups", "status")}, chosen=["proj", "nowhere.exps"]) for r in lrecs if r["status"] == "ok"][:5]
    got3 = run_cases(tmp, "Imports", "Imports.cfg", lm, "layout-selftest")
    if len(got3["viols"]) != len(lm) or not lm:
        raise common.MachineryError("C05 self-test (layout): wrong chosen file accepted")
    rep.extra["selftest_corrupted_rejected"] = len(muts) + len(om) + len(lm)

    rep.traces = len(ok) + len(order_cases) + len(lrecs)
    rep.evaluations = len(trees) + len(lays)
    rep.nontrivial = len({c["src"] for c in ok if c["meta"].get("edges")}) + len({json.dumps(r["case"]) for r in lrecs if len(r["case"]["l1"]) > 1})
    rep.rule = (f"{len(trees)} macro programs: all DAGs on <=4 macros x all definition orders (sampled above 3), random rich bodies "
                "(parameters of every kind, pass-through, return in macros, private labels, repeated calls), macros spread over 1-3 files; "
                f"{len(lays)} import layouts (import string x candidate placement x lookup lists, 1-2 levels); "
                "non-trivial = program with >=1 macro-to-macro call, layout with >=2 candidate files")
    rep.extra["rejected"] = rejected
    rep.sample({"source": ok[-1]["src"], "mro": ok[-1]["mro"]})
    rep.sample({"layout": lrecs[-1]["case"], "chosen": lrecs[-1]["chosen"], "status": lrecs[-1]["status"]})
    rep.assumptions = ["macro parameter names are unique per macro (a free $variable in a macro body is out of domain)",
                       "lexical parameter resolution as documented"]
    return rep.finish()


if __name__ == "__main__":
    common.main_wrapper(main)
