"""Deterministic, adversarial but LEGAL replacement for id() inside graph_utils: every live object has a unique
small integer, and the lowest free integer is handed out again as soon as its previous holder has been collected -
which is what CPython does with addresses in practice, made reproducible.  Installed by shadowing the name `id` in
the module namespace of graph_utils (no change to the repository)."""
from __future__ import annotations

import builtins
import threading
import weakref


class IdAlloc:
    def __init__(self, on_event=None):
        self.lock = threading.RLock()   # re-entrant: a finaliser may run (GC) while an id is being handed out
        self.live: dict[int, int] = {}
        self.used: set[int] = set()
        self.on_event = on_event

    def __call__(self, obj) -> int:
        key = builtins.id(obj)
        with self.lock:
            if key in self.live:
                return self.live[key]
            n = 1
            while n in self.used:
                n += 1
            self.used.add(n)
            self.live[key] = n
            try:
                weakref.finalize(obj, self._release, key, n)
            except TypeError:
                pass
            if self.on_event:
                self.on_event(("alloc", n))
            return n

    def _release(self, key: int, n: int) -> None:
        with self.lock:
            self.live.pop(key, None)
            self.used.discard(n)
            if self.on_event:
                self.on_event(("free", n))


def install(sink):
    """returns an uninstall function"""
    from explorerscript.ssb_converting.decompiler.graph_building import graph_utils
    from explorerscript import _verif
    alloc = IdAlloc(sink)
    graph_utils.id = alloc            # shadows the builtin for this module only
    graph_utils.find_first_common_next_vertex_in_edges_cache.clear()
    _verif.add_sink(sink)

    def uninstall():
        _verif.remove_sink(sink)
        if "id" in graph_utils.__dict__:
            del graph_utils.__dict__["id"]
    return uninstall
