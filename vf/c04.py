"""C04  Every parameter value survives being printed and parsed again; literal spellings parse as specified.
Spec: spec/Literals.tla."""
from __future__ import annotations

import itertools
import json
import os
import random

from vf import common, canon, decomp, drive, litref
from vf.pool import pmap

SIGMA = [" ", "\n", "a", "'", '"', "\\", "n"]


def cps(s: str) -> list[int]:
    return [ord(c) for c in s]


# ------------------------------------------------------------------------------- value direction

CONTEXTS = ["exps-arg", "exps-nested-arg", "exps-langstr", "exps-casemenu", "exps-casemenu-lang", "exps-casetext", "exps-defaulttext-lang",
            "ssbs-arg", "ssbs-langstr"]


def build_case(ctx: str, v: str) -> tuple[list[list[dict]], tuple[int, int, int], bool]:
    """routine set carrying the string in the given printing context; returns (routines, (routine, op, param) of
    the carrier in the RECOMPILED result counted over non-Jump ops, is-language-string)"""
    hs = "s:" + canon.hx(v)
    ls = "l:english=" + canon.hx(v)
    R = {"off": 0, "op": "Return", "ps": [], "tgt": -1, "pseudo": False}

    def mk(ops):
        out = []
        for i, (name, ps, tgt) in enumerate(ops):
            out.append({"off": i, "op": name, "ps": ps, "tgt": tgt, "pseudo": False})
        return [out]
    if ctx in ("exps-arg", "ssbs-arg"):
        return mk([("x", ["i:1", hs], -1), ("Return", [], -1)]), ("x", 1), False
    if ctx in ("exps-langstr", "ssbs-langstr"):
        return mk([("x", [ls, "i:2"], -1), ("Return", [], -1)]), ("x", 0), True
    if ctx == "exps-nested-arg":
        return mk([("Branch", ["c:$V", "i:1"], 3), ("a", [], -1), ("Jump", [], 4), ("x", [hs], -1), ("Return", [], -1)]), ("x", 0), False
    if ctx == "exps-casemenu":
        return mk([("message_SwitchMenu", ["i:1", "i:2"], -1), ("CaseMenu", [hs], 3), ("Jump", [], 5), ("a", [], -1), ("Jump", [], 5), ("Return", [], -1)]), ("CaseMenu", 0), False
    if ctx == "exps-casemenu-lang":
        return mk([("message_SwitchMenu", ["i:1", "i:2"], -1), ("CaseMenu", [ls], 3), ("Jump", [], 5), ("a", [], -1), ("Jump", [], 5), ("Return", [], -1)]), ("CaseMenu", 0), True
    if ctx == "exps-casetext":
        return mk([("message_SwitchTalk", ["c:$V"], -1), ("CaseText", ["i:1", hs], -1), ("Return", [], -1)]), ("CaseText", 1), False
    if ctx == "exps-defaulttext-lang":
        return mk([("message_SwitchMonologue", ["c:$V"], -1), ("DefaultText", [ls], -1), ("Return", [], -1)]), ("DefaultText", 0), True
    raise ValueError(ctx)


def value_case(arg) -> dict:
    ctx, v = arg
    from explorerscript.ssb_converting.ssb_data_types import repr_string
    rs, (opname, pidx), is_lang = build_case(ctx, v)
    infos = [{"kind": "GENERIC", "target": "i:0", "coro": ""}]
    rec = {"kind": "value", "ctx": ctx, "v": cps(v), "indent": 0, "preferSingle": not is_lang, "printed": [], "parsed": [], "status": "ok", "err": "", "text": ""}
    try:
        if ctx.startswith("ssbs"):
            from explorerscript.ssb_script.ssb_converting.ssb_decompiler import SsbScriptSsbDecompiler
            ri, co = canon.build_infos(infos)
            text, _ = SsbScriptSsbDecompiler(ri, canon.build_ops(rs), co).convert()
            from explorerscript.ssb_script.ssb_converting.ssb_compiler import SsbScriptSsbCompiler
            c = SsbScriptSsbCompiler()
            rec["text"] = text
            try:
                c.compile(text)
                ops = canon.ops_recs(c.routine_ops, True)
            except Exception as ex:
                rec["status"], rec["err"] = type(ex).__name__, str(ex)[:200]
                ops = None
        else:
            d = decomp.decompile_case({"routines": rs, "infos": infos})
            text = d["text"]
            rec["text"] = text
            if d["status"] != "ok":
                raise RuntimeError("decompile " + d["status"] + ": " + d["err"])
            if d["recomp"]["status"] != "ok":
                rec["status"] = d["recomp"]["status"]
                rec["err"] = d["recomp"]["err"]
                ops = None
            else:
                ops = d["recomp"]["ops"]
        # which literal did the printer print?  (the real printer function, at the indent that occurs in the text)
        for ind in range(0, 6):
            lit = repr_string(v, ind, not is_lang)
            if lit in text:
                rec["indent"], rec["printed"] = ind, cps(lit)
                break
        if ops is not None:
            carrier = [o for r in ops for o in r if o["op"] == opname]
            if len(carrier) != 1:
                rec["status"] = "lost"
            else:
                t = carrier[0]["ps"][pidx] if pidx < len(carrier[0]["ps"]) else "?:"
                if is_lang and t.startswith("l:english="):
                    rec["parsed"] = cps(canon.unhx(t[len("l:english="):]))
                elif not is_lang and t.startswith("s:"):
                    rec["parsed"] = cps(canon.unhx(t[2:]))
                else:
                    rec["status"] = "type-changed"
    except Exception as ex:
        rec["status"] = type(ex).__name__
        rec["err"] = str(ex)[:200]
    return rec


# ------------------------------------------------------------------------------- spelling direction

def single_spellings(maxlen: int) -> list[str]:
    out = []
    for q in ("'", '"'):
        for n in range(0, maxlen + 1):
            for t in itertools.product(["a", " ", "'", '"', "\\", "n"], repeat=n):
                b = "".join(t)
                ok, i = True, 0
                while i < len(b):
                    if b[i] == "\\":
                        # documented escapes only, and not directly behind another backslash pair ambiguity
                        if i + 1 >= len(b) or b[i + 1] not in "n'\"":
                            ok = False
                            break
                        i += 2
                        continue
                    if b[i] == q:
                        ok = False
                        break
                    i += 1
                if ok:
                    out.append(q + b + q)
    return out


def multi_spellings(maxlen: int) -> list[str]:
    out = []
    for q, other in (("'''", '"'), ('"""', "'")):
        for n in range(0, maxlen + 1):
            for t in itertools.product(["a", " ", "\n", other], repeat=n):
                out.append(q + "".join(t) + q)
    # documented examples
    out.append("'''First Line\n      Second Line\n        Some indentation in the third line\n      Fourth Line\n                  '''")
    out.append('"""\n      First Line\n      Second Line\n        Some indentation in the third line\n      Fourth Line"""')
    out.append('"""X\\nY\\\\Z\\"A\\\'B"""')
    return out


def spelling_case(arg) -> dict:
    lang, lit = arg
    rec = {"kind": "spelling", "lang": lang, "lit": cps(lit), "parsed": [], "status": "ok", "err": ""}
    try:
        if lang == "exps":
            c = drive.compile_text(f"def 0 {{ x({lit}); }}")
            if c["status"] != "ok":
                rec["status"], rec["err"] = c["status"], c["err"]
                return rec
            t = c["ops"][0][0]["ps"][0]
        else:
            from explorerscript.ssb_script.ssb_converting.ssb_compiler import SsbScriptSsbCompiler
            c = SsbScriptSsbCompiler()
            c.compile(f"def 0 {{ x({lit}); }}")
            t = canon.tok(c.routine_ops[0][0].params[0])
        rec["parsed"] = cps(canon.unhx(t[2:])) if t.startswith("s:") else [0]
    except Exception as ex:
        rec["status"], rec["err"] = type(ex).__name__, str(ex)[:200]
    return rec


def number_cases() -> list[tuple]:
    out = []
    mags = ["0", "1", "7", "10", "12", "255", "4095", "32767", "100000"]
    for m in mags:
        v = int(m)
        for sign in ("", "-"):
            for z in ("",):
                out.append(("int", sign + m))
            out.append(("int", sign + "0x" + format(v, "x")))
            out.append(("int", sign + "0X" + format(v, "X")))
            out.append(("int", sign + "0o" + format(v, "o")))
            out.append(("int", sign + "0b" + format(v, "b")))
            out.append(("int", sign + "0x00" + format(v, "x")))
            out.append(("int", sign + "0b0" + format(v, "b")))
    for z in ("0", "00", "000", "-0", "-00"):
        out.append(("int", z))
    for w in ("", "0", "00", "1", "01", "001", "12", "63", "100"):
        for f in ("0", "5", "50", "05", "004", "125", "000", "9990"):
            for sign in ("", "-"):
                out.append(("dec", f"{sign}{w}.{f}"))
    for t in ("0", "1", "12", "40", "3.5", "3.50", "3.0", "3.00", ".5", ".50", ".0", "0.5", "00.5", "7.500", "2.25", "2.05", "1.55", ".25"):
        out.append(("pos", t))
    return out


def number_case(arg) -> dict:
    kind, text = arg
    rec = {"kind": kind, "text": cps(text), "status": "ok", "pint": 0, "pdec": [], "ppos": [0, 0], "err": ""}
    src = f"def 0 {{ x(Position<'m', {text}, 1>); }}" if kind == "pos" else f"def 0 {{ x({text}); }}"
    c = drive.compile_text(src)
    if c["status"] != "ok":
        rec["status"], rec["err"] = c["status"], c["err"]
        return rec
    t = c["ops"][0][0]["ps"][0]
    if kind == "int" and t.startswith("i:"):
        rec["pint"] = int(t[2:])
    elif kind == "dec" and t.startswith("f:"):
        rec["pdec"] = cps(t[2:])
    elif kind == "pos" and t.startswith("p:"):
        _, xo, yo, xr, yr = t[2:].split(",")
        rec["ppos"] = [int(xr), int(xo)]
    else:
        rec["status"] = "type-changed:" + t[:2]
    return rec


TOKENS = ["i:0", "i:1", "i:-1", "i:12", "i:255", "i:-32768", "i:32767", "c:ACTOR_PLAYER", "c:$SCENARIO_MAIN", "c:_x", "c:A1_b",
          "f:0.0", "f:1.5", "f:-0.25", "f:-0.0", "f:63.996", "f:12.004", "f:-64.0", "f:0.50", "f:3.125"]


def token_cases() -> list[dict]:
    """non-string parameters through every printing position: op argument, flag forms, branch/switch/case headers,
    ctx ids, position marks with and without half-tile offsets, dungeon-mode numbers"""
    out = []
    for t in TOKENS:
        out.append({"ctx": "arg", "tin": t, "alias": [], "rs": [("x", ["i:9", t], -1), ("Return", [], -1)], "carrier": ("x", 1)})
    for name in ("m", "a b", "né", "日本", "x-1"):
        for xo, yo in ((0, 0), (2, 0), (0, 2), (2, 2)):
            for xr, yr in ((0, 0), (12, 40), (63, 1)):
                t = f"p:{canon.hx(name)},{xo},{yo},{xr},{yr}"
                out.append({"ctx": "posmark", "tin": t, "alias": [], "rs": [("x", [t], -1), ("Return", [], -1)], "carrier": ("x", 0)})
    for t in ["i:3", "c:$V", "c:GV_1"]:
        for v in ["i:0", "i:7", "c:CONST_A", "i:-2"]:
            out.append({"ctx": "flag_Set", "tin": v, "alias": [], "rs": [("flag_Set", [t, v], -1), ("Return", [], -1)], "carrier": ("flag_Set", 1)})
            out.append({"ctx": "Branch", "tin": v, "alias": [], "rs": [("Branch", [t, v], 2), ("a", [], -1), ("Return", [], -1)], "carrier": ("Branch", 1)})
            out.append({"ctx": "Case", "tin": v, "alias": [], "rs": [("Switch", [t], -1), ("Case", [v], 3), ("Jump", [], 4), ("a", [], -1), ("Return", [], -1)], "carrier": ("Case", 0)})
        out.append({"ctx": "lives", "tin": t, "alias": [], "rs": [("lives", [t], -1), ("a", [], -1), ("Return", [], -1)], "carrier": ("lives", 0)})
    # negative / zero coordinates of position marks
    for xr, yr in ((-1, 5), (5, -1), (-1, -1), (0, -7), (-12, 0)):
        for xo, yo in ((0, 0), (2, 2), (0, 2)):
            t = f"p:{canon.hx('neg')},{xo},{yo},{xr},{yr}"
            out.append({"ctx": "posmark-neg", "tin": t, "alias": [], "rs": [("x", [t], -1), ("Return", [], -1)], "carrier": ("x", 0)})
    # every value slot of every opcode family with special syntax, with 0 / negative / constant values
    vals = ["i:0", "i:1", "i:-3", "c:K_X"]
    J = ("Jump", [], 4)
    slots = []
    for v in vals:
        slots += [("CaseMenu2", [("message_SwitchMenu", ["i:1", "i:2"], -1), ("CaseMenu2", [v], 3), ("Jump", [], 4), ("a", [], -1), ("Return", [], -1)], 0),
                  ("CaseValue", [("Switch", ["c:$S"], -1), ("CaseValue", ["i:3", v], 3), ("Jump", [], 4), ("a", [], -1), ("Return", [], -1)], 1),
                  ("CaseVariable", [("Switch", ["c:$S"], -1), ("CaseVariable", ["i:4", v], 3), ("Jump", [], 4), ("a", [], -1), ("Return", [], -1)], 1),
                  ("CaseScenario", [("SwitchScenario", ["c:$S"], -1), ("CaseScenario", ["i:5", v], 3), ("Jump", [], 4), ("a", [], -1), ("Return", [], -1)], 1),
                  ("BranchValue", [("BranchValue", ["c:$V", "i:3", v], 2), ("a", [], -1), ("Return", [], -1)], 2),
                  ("BranchVariable", [("BranchVariable", ["c:$V", "i:7", v], 2), ("a", [], -1), ("Return", [], -1)], 2),
                  ("BranchBit", [("BranchBit", [v, "i:0"], 2), ("a", [], -1), ("Return", [], -1)], 0),
                  ("BranchScenarioNow", [("BranchScenarioNow", [v, "i:0", "i:0"], 2), ("a", [], -1), ("Return", [], -1)], 0),
                  ("SwitchRandom", [("SwitchRandom", [v], -1), ("Case", ["i:0"], 3), ("Jump", [], 4), ("a", [], -1), ("Return", [], -1)], 0),
                  ("SwitchScenarioLevel", [("SwitchScenarioLevel", [v], -1), ("Case", ["i:0"], 3), ("Jump", [], 4), ("a", [], -1), ("Return", [], -1)], 0),
                  ("flag_CalcValue", [("flag_CalcValue", ["c:$V", "i:2", v], -1), ("Return", [], -1)], 2),
                  ("flag_CalcVariable", [("flag_CalcVariable", [v, "i:4", "c:$W"], -1), ("Return", [], -1)], 0),
                  ("flag_SetAdventureLog", [("flag_SetAdventureLog", [v], -1), ("Return", [], -1)], 0),
                  ("flag_SetScenario", [("flag_SetScenario", ["c:$S", v if v.startswith("i:") else "i:9", "i:0"], -1), ("Return", [], -1)], 1),
                  ("flag_Clear", [("flag_Clear", [v], -1), ("Return", [], -1)], 0),
                  ("message_SwitchTalk", [("message_SwitchTalk", [v], -1), ("CaseText", ["i:0", "s:61"], -1), ("Return", [], -1)], 0),
                  ("CaseText", [("message_SwitchTalk", ["c:$V"], -1), ("CaseText", [v, "s:61"], -1), ("Return", [], -1)], 0),
                  ("object", [("object", [v], -1), ("a", [], -1), ("Return", [], -1)], 0)]
    for i in (0, 1, 3):
        slots += [("BranchPerformance", [("BranchPerformance", [f"i:{i}", "i:0"], 2), ("a", [], -1), ("Return", [], -1)], 0),
                  ("BranchDebug", [("BranchDebug", [f"i:{i % 2}"], 2), ("a", [], -1), ("Return", [], -1)], 0),
                  ("flag_CalcBit", [("flag_CalcBit", ["c:$V", f"i:{i}", "i:0"], -1), ("Return", [], -1)], 1),
                  ("flag_SetPerformance", [("flag_SetPerformance", [f"i:{i}", "i:0"], -1), ("Return", [], -1)], 0)]
    for name, rs, idx in slots:
        out.append({"ctx": "slot-" + name, "tin": rs[[r[0] for r in rs].index(name)][1][idx], "alias": [], "rs": rs, "carrier": (name, idx)})
    # several parameters of the same kind in ONE operation (and in neighbouring operations): each must come back as itself
    L = lambda **kw: "l:" + ";".join(f"{k}={canon.hx(v)}" for k, v in sorted(kw.items()))
    S = lambda v: "s:" + canon.hx(v)
    P = lambda n, xo, yo, x, y: f"p:{canon.hx(n)},{xo},{yo},{x},{y}"
    multi = [[L(english="one"), L(english="two")],
             [L(english="e1", french="f1"), "i:3", L(english="e2", german="g2"), S("s1"), S("s2"), L(french="f3")],
             [S("a"), S("b"), S("a'b"), S('a"b')],
             [P("m1", 0, 2, 3, 4), P("m2", 2, 0, 5, 6), P("m1", 2, 2, 7, 8)],
             ["f:1.5", "f:-0.25", "i:-1", "c:K1", "c:K2", "f:12.004"]]
    for ps in multi:
        for idx in range(len(ps)):
            out.append({"ctx": "multi-arg", "tin": ps[idx], "alias": [], "rs": [("x", ps, -1), ("y", list(reversed(ps)), -1), ("Return", [], -1)], "carrier": ("x", idx)})
            out.append({"ctx": "multi-arg-2nd-op", "tin": list(reversed(ps))[idx], "alias": [], "rs": [("x", ps, -1), ("y", list(reversed(ps)), -1), ("Return", [], -1)], "carrier": ("y", idx)})
    msw = [("message_SwitchTalk", ["c:$V"], -1), ("CaseText", ["i:1", L(english="c1", french="c1f")], -1), ("CaseText", ["i:2", L(english="c2")], -1),
           ("DefaultText", [L(english="d", german="dg")], -1), ("Return", [], -1)]
    out.append({"ctx": "multi-defaulttext", "tin": msw[3][1][0], "alias": [], "rs": msw, "carrier": ("DefaultText", 0)})
    for i in range(4):
        c = f"c:{decomp.DMODE[i]}"
        out.append({"ctx": "dmode-set", "tin": f"i:{i}", "alias": [c], "rs": [("flag_SetDungeonMode", ["i:5", f"i:{i}"], -1), ("Return", [], -1)], "carrier": ("flag_SetDungeonMode", 1)})
        out.append({"ctx": "dmode-case", "tin": f"i:{i}", "alias": [c], "rs": [("SwitchDungeonMode", ["i:5"], -1), ("Case", [f"i:{i}"], 3), ("Jump", [], 4), ("a", [], -1), ("Return", [], -1)], "carrier": ("Case", 0)})
    return out


def token_case(tc: dict) -> dict:
    rs = [[{"off": i, "op": n, "ps": ps, "tgt": tg, "pseudo": False} for i, (n, ps, tg) in enumerate(tc["rs"])]]
    infos = [{"kind": "GENERIC", "target": "i:0", "coro": ""}]
    recs = []
    for which in ("exps", "ssbs"):
        rec = {"kind": "token", "ctx": tc["ctx"] + "/" + which, "tin": tc["tin"], "tout": "", "alias": tc["alias"] if which == "exps" else [], "status": "ok", "err": "", "text": ""}
        try:
            if which == "exps":
                d = decomp.decompile_case({"routines": rs, "infos": infos})
                rec["text"] = d["text"]
                if d["status"] != "ok" or d["recomp"]["status"] != "ok":
                    rec["status"] = d["status"] if d["status"] != "ok" else d["recomp"]["status"]
                    rec["err"] = d["err"] or d["recomp"]["err"]
                    recs.append(rec)
                    continue
                ops = d["recomp"]["ops"]
            else:
                from explorerscript.ssb_script.ssb_converting.ssb_decompiler import SsbScriptSsbDecompiler
                from explorerscript.ssb_script.ssb_converting.ssb_compiler import SsbScriptSsbCompiler
                ri, co = canon.build_infos(infos)
                text, _ = SsbScriptSsbDecompiler(ri, canon.build_ops(rs), co).convert()
                rec["text"] = text
                c = SsbScriptSsbCompiler()
                c.compile(text)
                ops = canon.ops_recs(c.routine_ops, True)
            car = [o for r in ops for o in r if o["op"] == tc["carrier"][0]]
            if len(car) != 1 or tc["carrier"][1] >= len(car[0]["ps"]):
                rec["status"] = "lost"
            else:
                rec["tout"] = car[0]["ps"][tc["carrier"][1]]
        except Exception as ex:
            rec["status"], rec["err"] = type(ex).__name__, str(ex)[:200]
        recs.append(rec)
    return {"recs": recs}


def validate(rep, recs, tag):
    out = []
    B = 6000
    keep = {"value": ("kind", "v", "indent", "preferSingle", "printed", "parsed", "status"),
            "spelling": ("kind", "lit", "parsed", "status"), "token": ("kind", "tin", "tout", "alias", "status")}
    for k in range(0, len(recs), B):
        path = os.path.join(common.scratch(), f"c04-{tag}-{k}.json")
        with open(path, "w") as fh:
            json.dump([{f: r[f] for f in keep.get(r["kind"], ("kind", "text", "status", "pint", "pdec", "ppos"))} for r in recs[k:k + B]], fh)
        res = common.run_tlc("Literals", "Literals_cases.cfg", {"CASES_FILE": path})
        os.unlink(path)
        rep.add_tlc(res)
        if res["inv_errors"] and not res["viols"]:
            raise common.MachineryError("invariant violation without VIOL line:\n" + res["out"][-3000:])
        for v in res["viols"]:
            out.append((k + int(v[0]) - 1, common.tla_unquote(v[1])))
    return out


def main() -> int:
    rep = common.Report("C04")
    rng = random.Random(common.seed() * 389 + 4)
    thorough = common.tier() == "thorough"
    # design level
    res = common.run_tlc("Literals", "Literals_design5.cfg" if thorough else "Literals_design.cfg")
    rep.add_tlc(res)
    if res["inv_errors"]:
        rep.violation("design:unclassified-value", {"tlc": res["out"][-1500:]})
    maxlen = 5 if thorough else 4
    values = ["".join(t) for n in range(0, maxlen + 1) for t in itertools.product(SIGMA, repeat=n)]
    extra = ["'''", '"""', "a'''b\nc", 'a"""b\nc', "'''\n\"\"\"", "x'''y\"\"\"z\nw", "\\'''\n\"\"\"", "tab\there", "é日本\n ü", "a\r\nb", "  lead\n  all\n  ind", "end\n", "\nstart",
             "a\n\nb", " ", "", "\n", "\n\n", "a\n ", " \n", "{}", "a,b)", "// no comment", "/* x */", "§", "\u2028x", "q\\", "\\n", "a\\nb\nc"]
    for _ in range(300 if not thorough else 3000):
        n = rng.randint(1, 12)
        extra.append("".join(rng.choice(SIGMA + ["b", "\t", "é", "{", ","]) for _ in range(n)))
    args = []
    for v in values:
        for ctx in (CONTEXTS if len(v) <= (3 if not thorough else 4) else ["exps-arg", "exps-langstr", "ssbs-arg", "exps-casetext"]):
            args.append((ctx, v))
    for v in extra:
        for ctx in CONTEXTS:
            args.append((ctx, v))
    vrecs = pmap(value_case, args, limit=15.0, chunk=32)
    srecs = pmap(spelling_case, [(lang, l) for l in single_spellings(4 if not thorough else 5) + multi_spellings(5 if not thorough else 6) for lang in ("exps", "ssbs")], chunk=64)
    nrecs = pmap(number_case, number_cases(), chunk=32)
    trecs = []
    for r in pmap(token_case, token_cases(), chunk=16):
        if r.get("_error") or r.get("_timeout"):
            raise common.MachineryError("harness failure in token case: " + str(r)[:300])
        trecs += r["recs"]
    recs = []
    for r in vrecs + srecs + nrecs + trecs:
        if r.get("_error"):
            raise common.MachineryError("harness error: " + r["_error"])
        if r.get("_timeout"):
            continue
        recs.append(r)
    for i, verdict in validate(rep, recs, "main"):
        r = recs[i]
        w = {k: r.get(k) for k in ("ctx", "lang", "status", "err")}
        for fld in ("v", "printed", "parsed", "lit", "text"):
            if fld in r and isinstance(r[fld], list):
                w[fld] = "".join(chr(c) for c in r[fld])
        for fld in ("tin", "tout", "pint", "pdec", "ppos"):
            if fld in r:
                w[fld] = r[fld] if not isinstance(r[fld], list) or fld == "ppos" else "".join(chr(c) for c in r[fld])
        rep.violation("literal:" + verdict, w)
    # self-test: corrupt parsed / printed
    good = [r for r in recs if r["kind"] == "value" and r["status"] == "ok" and r["parsed"] == r["v"] and len(r["v"]) >= 2][:4]
    muts = []
    for r in good:
        m = dict(r); m["parsed"] = r["parsed"][:-1]; muts.append(m)
    g2 = [r for r in recs if r["kind"] == "spelling" and r["status"] == "ok" and len(r["parsed"]) >= 1][:3]
    for r in g2:
        m = dict(r); m["parsed"] = r["parsed"] + [120]; muts.append(m)
    g3 = [r for r in recs if r["kind"] == "int" and r["status"] == "ok"][:2]
    for r in g3:
        m = dict(r); m["pint"] = r["pint"] + 1; muts.append(m)
    tmp = common.Report("C04"); tmp.known = []
    got = validate(tmp, muts, "selftest")
    if not muts or len(got) != len(muts) or any(not g[1].startswith("new") for g in got):
        raise common.MachineryError(f"C04 self-test: corrupted records accepted or mis-classified: {got}")
    rep.extra["selftest_corrupted_rejected"] = len(muts)
    rep.traces = len(recs)
    rep.evaluations = len(recs)
    rep.nontrivial = len({(r["ctx"], tuple(r["v"])) for r in recs if r["kind"] == "value" and any(c in (10, 39, 34, 92, 32) for c in r["v"])})
    rep.rule = (f"values: all strings over {{space,newline,a,',\",\\,n}} up to length {maxlen} x printing contexts {CONTEXTS} (all 9 up to length "
                f"{3 if not thorough else 4}, 4 beyond) + {len(extra)} further strings (unicode, both triple quotes, random); spellings: all single-line bodies "
                "<=4/5 with documented escapes and multi-line bodies <=5/6 in both quote kinds, both compilers; integers/decimals/position coordinates "
                "by base, sign, leading/trailing zeros; non-string tokens through every printing position. non-trivial = distinct (context, value) "
                "containing a quote, newline, backslash or blank")
    rep.extra["by_kind"] = {k: sum(1 for r in recs if r["kind"] == k) for k in ("value", "spelling", "token", "int", "dec", "pos")}
    ex = next(r for r in recs if r["kind"] == "value" and 10 in r["v"] and r["status"] == "ok")
    rep.sample({"context": ex["ctx"], "value": "".join(map(chr, ex["v"])), "printed": "".join(map(chr, ex["printed"]))})
    rep.sample({"spelling": "".join(map(chr, srecs[50]["lit"])), "parsed": "".join(map(chr, srecs[50]["parsed"]))})
    rep.assumptions = ["single-line spellings use only the three documented escapes (the meaning of other backslash pairs is unspecified)",
                       "equality is on all fields of a parameter, including a position mark's name"]
    return rep.finish()


if __name__ == "__main__":
    common.main_wrapper(main)
