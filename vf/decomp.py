"""Real-code driver for the ExplorerScript decompiler: convert() a routine set, then parse and
recompile the emitted text.  One record per input, consumed by C02 / C06 / C09 / C13."""
from __future__ import annotations

import copy

from vf import common, canon, drive, parsetree

DMODE = ("DMODE_CLOSE", "DMODE_OPEN", "DMODE_REQUEST", "DMODE_OPEN_AND_REQUEST")
MARKER = "//?: is-ssb-script: true"


def decompile_case(case: dict) -> dict:
    """case = {routines, infos} (records).  Returns
    {status: ok|<ExceptionType>, err, text, fallback, sm, recomp: {status, err, ops, infos, sm}, table | None,
     mutated: bool (convert() changed the meaning of its argument)}"""
    from explorerscript.ssb_converting.ssb_decompiler import ExplorerScriptSsbDecompiler
    from explorerscript.ssb_converting.ssb_data_types import DungeonModeConstants
    from vf.pool import CaseTimeout
    out = {"inp": case["routines"], "infoIn": case["infos"], "status": "ok", "err": "", "text": "", "fallback": False,
           "sm": None, "recomp": None, "table": None, "mutated": False}
    ops = canon.build_ops(case["routines"])
    infos, coros = canon.build_infos(case["infos"])
    before = canon.ops_recs(copy.deepcopy(ops), jump_last=False)
    try:
        d = ExplorerScriptSsbDecompiler(infos, ops, coros, common.PPL, DungeonModeConstants(*DMODE))
        text, sm = d.convert()
        out["text"] = text
        out["sm"] = sm.serialize()
    except BaseException as ex:
        if isinstance(ex, (CaseTimeout, KeyboardInterrupt)):
            raise
        out["status"] = type(ex).__name__
        out["err"] = str(ex)[:300]
        return out
    try:
        after = canon.ops_recs(ops, jump_last=False)
        out["mutated"] = after != before
    except Exception:
        out["mutated"] = True
    out["fallback"] = text.startswith(MARKER)
    comp = drive.compile_text(text)
    out["recomp"] = {k: comp[k] for k in ("status", "err", "ops", "infos", "sm")}
    if not out["fallback"] and comp["status"] == "ok":
        try:
            tab = parsetree.parse(text)
            drive.attach_rix(tab)
            out["table"] = tab
        except Exception as ex:
            out["table"] = None
            out["table_err"] = f"{type(ex).__name__}: {ex}"[:200]
    return out


def compile_convention(routines: list[list[dict]]) -> list[list[dict]]:
    """input records are already {off, op, ps (without target), tgt}: same shape the product specs use"""
    return routines


def dmode_normalise(recs: list[list[dict]]) -> list[list[dict]]:
    """C04's stated tolerance: a dungeon-mode number 0..3 may come back as the configured constant that stands
    for it.  Applied to both sides before comparison: the value of flag_SetDungeonMode's second parameter and of
    Case values directly under SwitchDungeonMode."""
    m = {f"i:{i}": f"c:{DMODE[i]}" for i in range(4)}
    out = []
    for r in recs:
        rr = []
        under = False
        for o in r:
            o = dict(o)
            if o["op"] == "flag_SetDungeonMode" and len(o["ps"]) == 2:
                o["ps"] = [o["ps"][0], m.get(o["ps"][1], o["ps"][1])]
            if o["op"] == "SwitchDungeonMode":
                under = True
            elif o["op"] == "Case" and under and len(o["ps"]) == 1:
                o["ps"] = [m.get(o["ps"][0], o["ps"][0])]
            elif not o["op"].startswith("Case"):
                under = False
            rr.append(o)
        out.append(rr)
    return out
