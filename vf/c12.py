"""C12  Concurrent compilation and decompilation give the sequential results.
Specs: spec/CacheThreads.tla (design, all interleavings), spec/ProcessState.tla (validation of real multi-threaded cache traces)."""
from __future__ import annotations

import gc
import json
import os
import random
import sys
import threading

from vf import common, canon, decomp, drive, idalloc
from vf import c11
from vf.pool import pmap


class Sched:
    """Deterministic cooperative scheduler: exactly one thread runs at a time; at every yield point the next thread to
    run is drawn from a seeded generator (or taken from a given schedule).  Yield points: acquisition of the cache lock,
    and - for compile threads - every lexer token and every parser prediction."""

    def __init__(self, rng: random.Random, max_preemptions: int | None = None):
        self.cv = threading.Condition()
        self.current = None
        self.alive: set[int] = set()
        self.rng = rng
        self.switches = 0
        self.points = 0
        self.max_preemptions = max_preemptions
        self.local = threading.local()

    def begin(self, tids):
        self.alive = set(tids)
        self.current = self.rng.choice(sorted(self.alive))

    def wait_turn(self, tid):
        with self.cv:
            while self.current != tid:
                self.cv.wait(30)

    def yield_point(self, p: float = 0.5):
        tid = getattr(self.local, "tid", None)
        if tid is None or getattr(self.local, "held", 0):
            return          # not a scheduled thread / inside the cache's critical section (the lock is not a yield point while held)
        with self.cv:
            self.points += 1
            if self.max_preemptions is None or self.switches < self.max_preemptions:
                nxt = self.rng.choice(sorted(self.alive)) if self.rng.random() < p else tid
            else:
                nxt = tid
            if nxt != tid:
                self.switches += 1
                self.current = nxt
                self.cv.notify_all()
                while self.current != tid:
                    self.cv.wait(30)

    def done(self, tid):
        with self.cv:
            self.alive.discard(tid)
            if self.alive:
                self.current = self.rng.choice(sorted(self.alive))
            self.cv.notify_all()


class SchedLock:
    def __init__(self, sched: Sched):
        self.sched = sched
        self.inner = threading.Lock()

    def __enter__(self):
        self.sched.yield_point()
        self.inner.acquire()
        self.sched.local.held = getattr(self.sched.local, "held", 0) + 1
        return self

    def __exit__(self, *a):
        self.sched.local.held -= 1
        self.inner.release()
        return False


def one_call(kind: str, name: str) -> dict:
    if kind == "decompile":
        d = decomp.decompile_case({"routines": c11.SETS[name], "infos": c11.INFO1})
        out = {"status": d["status"], "text": d["text"], "sm": d["sm"], "mutated": d["mutated"]}
    else:
        c = drive.compile_text(c11.TEXTS[name], c11.path_of(name))
        out = {k: c[k] for k in ("status", "ops", "infos", "sm", "mro")}
    return out


def _threads_child(conn, plan, seed, mode):
    """plan: list (per thread) of lists of calls.  mode: "sched" (deterministic scheduler) | "free" (real preemption)"""
    import logging
    import warnings
    logging.disable(logging.CRITICAL)
    warnings.simplefilter("ignore")
    events = []
    elock = threading.RLock()

    def sink(ev):
        with elock:
            events.append(ev)
    un = idalloc.install(sink)
    from explorerscript.ssb_converting.decompiler.graph_building import graph_utils
    # no module of the package is imported for the first time inside a scheduled thread (a thread descheduled while it holds
    # an import lock would block the others outside the scheduler's control)
    import importlib
    import pkgutil
    import explorerscript
    for mi in pkgutil.walk_packages(explorerscript.__path__, "explorerscript."):
        if ".pygments" in mi.name or ".cli" in mi.name or mi.name.endswith("__main__"):
            continue
        try:
            importlib.import_module(mi.name)
        except Exception:  # noqa
            pass
    rng = random.Random(seed)
    sched = Sched(rng, max_preemptions=None if seed % 3 else 2)
    restore = []
    if mode == "sched":
        graph_utils.cache_lock = SchedLock(sched)
        import antlr4
        from antlr4.Lexer import Lexer
        from antlr4.atn.ParserATNSimulator import ParserATNSimulator
        o1, o2 = Lexer.nextToken, ParserATNSimulator.adaptivePredict

        def nt(self, *a, **k):
            sched.yield_point()
            return o1(self, *a, **k)

        def ap(self, *a, **k):
            sched.yield_point()
            return o2(self, *a, **k)
        Lexer.nextToken, ParserATNSimulator.adaptivePredict = nt, ap
        restore = [(Lexer, "nextToken", o1), (ParserATNSimulator, "adaptivePredict", o2)]
    else:
        sys.setswitchinterval(1e-6)
    results = [[None] * len(p) for p in plan]

    def prof(frame, event, arg):
        # every call of a function of the package (not the generated parser) is a possible thread switch
        if event == "call":
            fn = frame.f_code.co_filename
            if "/explorerscript/" in fn and "/antlr/" not in fn and not fn.endswith("_verif.py"):
                sched.yield_point(0.04)

    def body(tid):
        sched.local.tid = tid if mode == "sched" else None
        if mode == "sched":
            sched.wait_turn(tid)
            if seed % 2:
                sys.setprofile(prof)
        try:
            for j, (kind, name) in enumerate(plan[tid]):
                try:
                    out = one_call(kind, name)
                    results[tid][j] = {"digest": c11.digest({k: v for k, v in out.items() if k != "mutated"} if kind != "decompile" else out), "status": out["status"], "raised": ""}
                except BaseException as ex:  # an exception in a thread is a violation of C12
                    results[tid][j] = {"digest": "raised", "status": "raised", "raised": f"{type(ex).__name__}: {ex}"[:200]}
        finally:
            sys.setprofile(None)
            if mode == "sched":
                sched.done(tid)
    ths = [threading.Thread(target=body, args=(t,), daemon=True) for t in range(len(plan))]
    if mode == "sched":
        sched.begin(range(len(plan)))
    for t in ths:
        t.start()
    for t in ths:
        t.join(50)
    stuck = any(t.is_alive() for t in ths)
    where = []
    if stuck:
        import traceback
        for th_id, fr in sys._current_frames().items():
            where.append("".join(traceback.format_stack(fr)[-6:]))
    for cls, name, orig in restore:
        setattr(cls, name, orig)
    un()
    evs = [{"e": e[0], "g": int(e[1]) if len(e) > 1 else 0, "k": str(e[2]) if len(e) > 2 else ""} for e in events if e[0] != "free"]
    conn.send({"results": results, "events": evs, "stuck": stuck, "where": where, "switches": sched.switches, "points": sched.points})
    conn.close()


def run_plan(arg) -> dict:
    plan, seed, mode = arg
    return c11.run_isolated(_threads_child, (plan, seed, mode), limit=70.0)


def main() -> int:
    rep = common.Report("C12")
    rng = random.Random(common.seed() * 677 + 12)
    thorough = common.tier() == "thorough"
    res = common.run_tlc("CacheThreads", "CacheThreads_3.cfg" if thorough else "CacheThreads.cfg")
    rep.add_tlc(res)
    if res["inv_errors"]:
        rep.violation("threads-design", {"tlc": res["out"][-2000:]})
    try:
        r2 = common.run_tlc("CacheThreads", "CacheThreads_pinned.cfg", cont=False)
        if not r2["inv_errors"]:
            raise common.MachineryError("vacuity guard: the deviation NoClearBeforeSwitchPass no longer violates ResultSequential in the thread model")
    except common.MachineryError as ex:
        if "vacuity" in str(ex):
            raise
    rep.extra["design_states"] = res["distinct"]
    calls = [c for c in c11.CALLS if c[0] != "compile-reuse"]
    solo = {}
    for c, r in zip(calls, pmap(c11.run_history, [([c], True) for c in calls], limit=90.0, chunk=1)):
        if not r.get("results"):
            raise common.MachineryError(f"solo run of {c} failed: {r}")
        # solo digest through the same function the threads use
        solo[c] = None
    def _solo_child(conn, call):
        import logging, warnings
        logging.disable(logging.CRITICAL); warnings.simplefilter("ignore")
        out = one_call(*call)
        conn.send({"digest": c11.digest({k: v for k, v in out.items() if k != "mutated"} if call[0] != "decompile" else out)})
        conn.close()
    for c in calls:
        sr = c11.run_isolated(_solo_child, (c,))
        if "digest" not in sr:
            raise common.MachineryError(f"solo run of {c} gave no result: {sr}")
        solo[c] = sr["digest"]
    plans = []
    n_sched = 120 if not thorough else 1500
    n_free = 30 if not thorough else 300
    for i in range(n_sched + n_free):
        nt = rng.choice([2, 2, 3])
        plan = [[rng.choice(calls) for _ in range(rng.choice([1, 2, 3]))] for _ in range(nt)]
        if i % 5 == 0:   # the residue / first-lookup witnesses of C11 in different threads
            plan[0] = [("decompile", "D-abort-residue")] + plan[0][:1]
            plan[1] = [("decompile", rng.choice(["D-switch-first-lookup", "D-switch-first-lookup-2"]))] + plan[1][:1]
        sd = rng.randrange(1 << 30)
        if i % 5 == 1:   # the same kind of block open in several threads at once (per-decompiler state of the writer: loop and switch handler stacks)
            fam = rng.choice([["D-forever", "D-forever-2"], ["D-switch", "D-nested", "D-X2"], ["D-forever", "D-forever"], ["D-loop", "D-forever-2", "D-W"],
                              ["T-loops", "T-flow"], ["T-loops", "T-loops"], ["T-flow", "T-macro", "T-loops"],
                              ["T-imp-main", "T-imp-main2"], ["T-imp-main2", "T-imp-main", "T-imp-lib"]])    # different main files importing the same files
            kind = "compile" if fam[0].startswith("T-") else "decompile"
            plan = [[(kind, fam[t % len(fam)])] * rng.choice([1, 2]) for t in range(nt)]
            sd |= 1      # with function-call yield points
        plans.append((plan, sd, "sched" if i < n_sched else "free"))
    runs = pmap(run_plan, plans, limit=120.0, chunk=1)
    cases, meta = [], []
    stuck = 0
    died_once = 0
    for p, r in zip(plans, runs):
        if r.get("_died_twice"):
            rep.violation("threads:process-died", {"plan": p[0], "seed": p[1], "mode": p[2], "how": r.get("how")})
            continue
        if r.get("_retried_after_death"):
            died_once += 1
            rep.extra.setdefault("process_deaths", []).append({"how": r["_retried_after_death"], "plan": p[0], "seed": p[1], "mode": p[2]})
        if r.get("_error"):
            raise common.MachineryError("threaded run failed: " + str(r)[:300])
        if r.get("_timeout") or r.get("stuck"):
            stuck += 1
            continue
        pairs = []
        for t, tcalls in enumerate(p[0]):
            for j, c in enumerate(tcalls):
                rr = r["results"][t][j] or {"digest": "missing", "raised": "no result"}
                pairs.append({"live": rr["digest"], "fresh": solo[c]})
        cases.append({"events": r["events"], "pairs": pairs, "mutated": False})
        meta.append((p, r))
    path = os.path.join(common.scratch(), "c12.json")

    def validate(cs):
        with open(path, "w") as fh:
            json.dump(cs, fh)
        res = common.run_tlc("ProcessState", "ProcessState_trace.cfg", {"CASES_FILE": path})
        if res["inv_errors"] and not res["viols"]:
            raise common.MachineryError("invariant violation without VIOL line:\n" + res["out"][-3000:])
        return res
    res = validate(cases)
    rep.add_tlc(res)
    for v in res["viols"]:
        i = int(v[0]) - 1
        p, r = meta[i]
        diff = [(t, j, c, r["results"][t][j]) for t, tc in enumerate(p[0]) for j, c in enumerate(tc) if (r["results"][t][j] or {}).get("digest") != solo[c]]
        rep.violation("threads:" + common.tla_unquote(v[1]), {"plan": p[0], "seed": p[1], "mode": p[2], "differing_calls": diff[:4], "event_index": int(v[2])})
    good = [c for c in cases if c["pairs"]][:2]
    muts = []
    for c in good:
        m = json.loads(json.dumps(c)); m["pairs"][0]["live"] = "raised"; muts.append(m)
    r3 = validate(muts)
    if not muts or len(r3["viols"]) != len(muts):
        raise common.MachineryError("C12 self-test: a raising / differing threaded call was accepted")
    rep.extra["selftest_corrupted_rejected"] = len(muts)
    rep.extra["runs_without_answer_in_time"] = stuck
    rep.extra["runs_repeated_after_the_process_died_once"] = died_once
    rep.extra["schedules"] = {"deterministic": n_sched, "free_running": n_free,
                              "mean_yield_points": round(sum(r["points"] for _, r in meta) / max(1, len(meta)), 1),
                              "mean_switches": round(sum(r["switches"] for _, r in meta) / max(1, len(meta)), 1)}
    rep.traces = len(cases)
    rep.evaluations = len(plans)
    rep.nontrivial = sum(1 for _, r in meta if r["switches"] >= 1)
    rep.rule = (f"{n_sched} deterministic schedules (one runnable thread at a time; yield points at every cache-lock acquisition, lexer token and parser prediction, and in "
                "every second schedule at every call of a function of the package; "
                f"seeded choice, every third schedule bounded to 2 preemptions) and {n_free} free-running runs (switch interval 1e-6) of 2-3 threads x 1-3 "
                "compile/decompile calls under the lowest-free id allocator; every call's digest is compared with its solo digest and the interleaved cache events "
                "are validated by TLC against ProcessState.tla; non-trivial = run with >=1 context switch at a yield point")
    p, r = meta[0]
    rep.sample({"plan": p[0], "mode": p[2], "switches": r["switches"], "yield_points": r["points"], "events": cases[0]["events"][:6]})
    rep.assumptions = ["schedules are explored at cache-operation / token / prediction granularity; arbitrary bytecode boundaries only through the free-running runs",
                       "ANTLR runtime internals are not modelled"]
    return rep.finish()


if __name__ == "__main__":
    common.main_wrapper(main)
